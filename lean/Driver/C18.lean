/- C18: the values the running library reports for the active parameter set ("derived column") against the
   table extracted from the source (RelicVerif/Gen/Params.lean). -/
import Driver.C03
import Driver.C11
import RelicVerif.Model.ParamBase
import RelicVerif.Model.ParamSel
import RelicVerif.Gen.Params

namespace Driver.C18
open Driver Relic.Model.Param Relic.Gen

/-- the tables of the baseline configuration and of the other configurations the translator extracts (p255, p381) -/
def allFields : List FieldParam := Params.fields ++ Params.extraFields
def allCurves : List CurveParam := Params.curves ++ Params.extraCurves

/-- contexts of field sizes no extracted table describes (the further pairing field sizes of the thorough sweeps) are not judged -/
def tableCovers (p : Nat) : Bool :=
  allFields.any fun f => Nat.log2 f.prime == Nat.log2 p

def checkAgainstTable (e : C03.Env) : List String :=
  if !tableCovers e.c.p then [] else
  match (e.kv.lookup "id").bind String.toNat? with
  | none => ["no id"]
  | some id =>
    match allCurves.find? (·.id == id) with
    | none => ["curve id " ++ toString id ++ " is selectable in the library but absent from the extracted table"]
    | some c =>
      match lookupField allFields c.field with
      | none => ["field " ++ c.field ++ " absent from the extracted table"]
      | some f =>
        let p := f.prime
        let cv := curveOf p c
        -- the consistency predicates the kernel evaluates on the table, evaluated here on the selected entry: a violated table theorem
        -- then also has a concrete failing line (the identifier)
        (if curveOk p c then [] else ["the selected set violates curveOk (canonical generator on the curve, r*G = O, Hasse window, unique multiple, discriminant)"]) ++
        (if c.pairf == "" || bnOk f c then [] else ["the selected set violates the pairing-family predicate (family, r(x), cofactor, embedding degree)"]) ++
        (if fieldOk f then [] else ["the field of the selected set violates fieldOk"]) ++
        (if e.c.p == p then [] else ["p differs from the table"]) ++
        (if e.c.a == cv.a then [] else ["a differs from the table"]) ++
        (if e.c.b == cv.b then [] else ["b differs from the table"]) ++
        (if e.g == some (c.gx, c.gy) then [] else ["generator differs from the table"]) ++
        (if e.n == c.r then [] else ["order differs from the table"]) ++
        (if e.h == c.h then [] else ["cofactor differs from the table"]) ++
        (if (e.kv.lookup "endom" == some "1") == c.endom then [] else ["endomorphism flag differs from the table"]) ++
        (if (e.kv.lookup "pairf" != some "0") == (c.pairf != "") then [] else ["pairing-family flag differs from the table"]) ++
        -- the affine reference evaluation of r • G = O agrees with the Jacobian evaluation the kernel checked
        (if (Relic.Spec.Curve.mul e.c e.g c.r == none) == jMulIsInfty cv c.gx c.gy c.r then [] else ["affine and Jacobian evaluations of r*G disagree"]) ++
        -- advertised embedding degree: the order of p modulo r, when it is small, is what the library must advertise (and 0 otherwise)
        (let k := (embedSmall p c.r 60).getD 0
         if e.kv.lookup "embed" == some (toString k) then [] else
           ["advertised embedding degree " ++ (e.kv.lookup "embed").getD "?" ++ " but the order of p modulo r is " ++ (if k == 0 then "> 60" else toString k)]) ++
        (if (e.kv.lookup "level").bind String.toNat? == some c.level then [] else ["advertised level differs from the extracted ep_param_level table"]) ++
        (match (e.kv.lookup "level").bind String.toNat? with
         | some l =>
           -- generic-group security: half the order size, capped by the table in ep_param_level for pairing curves
           let half := (Nat.log2 c.r + 1) / 2
           if l ≤ half + 2 ∧ l + 32 ≥ half then [] else ["advertised security level " ++ toString l ++ " inconsistent with a " ++ toString (Nat.log2 c.r + 1) ++ "-bit order"]
         | none => ["no level"])

/-- the twist the library reports (`ep2_param`) against the table extracted from src/epx/relic_ep2_curve.c -/
def checkTwistAgainstTable (e : C11.Env) : List String :=
  if !tableCovers e.c.d.p then [] else
  match (e.kv.lookup "id").bind String.toNat? with
  | none => ["no id"]
  | some id =>
    match allCurves.find? (·.id == id) with
    | none => ["curve id " ++ toString id ++ " absent from the extracted table"]
    | some c =>
      match c.twist with
      | none => ["the library installs a twist for " ++ c.name ++ " but the extracted table has none"]
      | some t =>
        let p := e.c.d.p
        (if e.c.a == [t.a0 % p, t.a1 % p] then [] else ["twist a differs from the table"]) ++
        (if e.c.b == [t.b0 % p, t.b1 % p] then [] else ["twist b differs from the table"]) ++
        (if e.g == some ([t.x0, t.x1], [t.y0, t.y1]) then [] else ["twist generator differs from the table"]) ++
        (if e.n == t.r then [] else ["twist order differs from the table"]) ++
        (if e.h == t.h then [] else ["twist cofactor differs from the table"]) ++
        (if (e.kv.lookup "qnr").bind String.toInt? == some t.qnr then [] else ["quadratic non-residue differs from the one derived for the table"])

/-- the Edwards set the library reports (`ed_param`) against the table extracted from src/ed/relic_ed_param.c -/
def checkEdAgainstTable (id p a d gx gy r h : Nat) : List String :=
  match Params.edCurves.find? (·.id == id) with
  | none => ["Edwards curve id " ++ toString id ++ " is selectable in the library but absent from the extracted table"]
  | some c =>
    match lookupField allFields c.field with
    | none => ["field " ++ c.field ++ " absent from the extracted table"]
    | some f =>
      (if f.prime == p then [] else ["p differs from the table"]) ++
      (if c.a == a then [] else ["a differs from the table"]) ++
      (if c.d == d then [] else ["d differs from the table"]) ++
      (if c.gx == gx && c.gy == gy then [] else ["generator differs from the table"]) ++
      (if c.r == r then [] else ["order differs from the table"]) ++
      (if c.h == h then [] else ["cofactor differs from the table"])

/-- endomorphism constant reported by the library: β is a primitive cube root of unity mod p and ψ(G) = (βx, y) is on the curve -/
def checkEndom (e : C03.Env) : List String :=
  if !e.endom then [] else
  match (e.kv.lookup "beta").bind parseHexNat, e.g with
  | some beta, some (gx, gy) =>
    let p := e.c.p
    (if beta % p != 1 && beta * beta % p * beta % p == 1 then [] else ["beta is not a primitive cube root of unity mod p"]) ++
    (if Relic.Spec.Curve.onCurve e.c (some (beta * gx % p, gy)) then [] else ["psi(G) is not on the curve"])
  | _, _ => ["endomorphism curve without beta"]

/-- `ep_glv k => k0 k1`: the decomposition satisfies k·G = k0·G + k1·ψ(G) and both parts have about half the length of the order -/
def handle (ep : Option C03.Env) (w : Nat) (op : String) (args : List String) (got : String) : Option Verdict :=
  match op, args with
  | "ep_glv", [k] => do
    let e ← ep
    let k ← (parseBn w k).map (Relic.Model.Bn.toInt (2 ^ w))
    if !e.endom then return { model := got, spec := ["no-endom"], tags := ["glv.none"] }
    let beta ← (e.kv.lookup "beta").bind parseHexNat
    let (gx, gy) ← e.g
    match (got.splitOn " ").map (fun t => (parseBn w ((t.splitOn ":").getD 0 "")).map (Relic.Model.Bn.toInt (2 ^ w))) with
    | [some k0, some k1] =>
      let c := e.c
      let psiG : Relic.Spec.Curve.Point := some (beta * gx % c.p, gy)
      let lhs := Relic.Spec.Curve.mul c e.g (k % (e.n : Int))
      let rhs := Relic.Spec.Curve.add c (Relic.Spec.Curve.mul c e.g k0) (Relic.Spec.Curve.mul c psiG k1)
      let half := (Nat.log2 e.n + 1) / 2 + 3
      let short := k0.natAbs < 2 ^ half && k1.natAbs < 2 ^ half
      some { model := got, spec := [if lhs == rhs && short then got else "k0, k1 with k*G = k0*G + k1*psi(G), |k0|,|k1| < 2^" ++ toString half],
             tags := ["glv", if k0 < 0 then "k0-" else "k0+", if k1 < 0 then "k1-" else "k1+"] }
    | _ => some { model := got, spec := ["two integers"], tags := ["glv.parse"] }
  | _, _ => none

/-! ### selection by identifier (`fp_sel`, `ep_sel`): unsupported identifiers are reported and install nothing (C08) -/

private def kvs (got : String) : List (String × String) :=
  (got.splitOn " ").filterMap fun t => match t.splitOn "=" with
    | [k, v] => some (k, v)
    | _ => none

private def hexOr0 (s : String) : Nat := (parseHexNat s).getD 0

/-- raw_print of the `used` digits of a positive integer -/
private def fmtUsed (w n : Nat) : String := if n = 0 then "0" else natToHexPad n (((Nat.log2 n) / w + 1) * (w / 4))

def handleSel (w : Nat) (op : String) (args : List String) (got : String) : Option Verdict :=
  match op, args with
  | "core_reinit", [] => some { model := "ok", spec := ["ok"], tags := ["core_reinit"] }
  | "fp_sel", [ids] => do
    let id ← ids.toInt?
    let kv := kvs got
    let id0s ← kv.lookup "id0"
    let p0s ← kv.lookup "p0"
    let id0 ← id0s.toInt?
    let st : FieldSel := { id := id0.toNat, prime := hexOr0 p0s }
    -- identifiers are small non-negative enumerators; anything else has no table entry
    let (st', okk) := if id < 0 then (st, false) else selectField Params.fields st id.toNat
    let line := if okk then
        "id0=" ++ id0s ++ " p0=" ++ p0s ++ " res=ok id1=" ++ toString st'.id ++ " p1=" ++ natToHexPad st'.prime p0s.length
      else "id0=" ++ id0s ++ " p0=" ++ p0s ++ " res=err id1=" ++ id0s ++ " p1=" ++ p0s
    some { model := line, spec := [line], tags := [if okk then "fp_sel.ok" else "fp_sel.unsupported"] }
  | "ep_sel", [ids] => do
    let id ← ids.toInt?
    let kv := kvs got
    let id0s ← kv.lookup "id0"
    let s0 ← kv.lookup "s0"
    match s0.splitOn "," with
    | [p0s, gx0, gy0, n0] =>
      let st : CurveSel := { prime := hexOr0 p0s, gx := hexOr0 gx0, gy := hexOr0 gy0, r := hexOr0 n0 }
      let (st', okk) := if id < 0 then (st, false) else selectCurve Params.fields Params.curves st id.toNat
      if okk then
        let line := "id0=" ++ id0s ++ " s0=" ++ s0 ++ " res=ok id1=" ++ ids ++ " s1=" ++ natToHexPad st'.prime p0s.length ++ "," ++
          natToHex st'.gx ++ "," ++ natToHex st'.gy ++ "," ++ fmtUsed w st'.r
        some { model := line, spec := [line], tags := ["ep_sel.ok"] }
      else
        -- the code clears the identifier before it looks the parameter up; the property only asks for the report and an unchanged curve
        let line (i : String) := "id0=" ++ id0s ++ " s0=" ++ s0 ++ " res=err id1=" ++ i ++ " s1=" ++ s0
        some { model := line "0", spec := [line "0", line id0s], tags := ["ep_sel.unsupported"] }
    | _ => some { model := "", spec := ["id0= s0=p,gx,gy,n …"], tags := ["ep_sel.parse"] }
  | _, _ => none

end Driver.C18
