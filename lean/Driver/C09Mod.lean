/- C09 extension (Mod family): driver cases whose model column is the Lean model's prediction. -/
import Driver.C02
import RelicVerif.Model.NtMod

namespace Driver.C09Mod
open Driver Relic.Model Relic.Model.NtMod

def pI (w : Nat) (s : String) : Option Int := (parseBn w s).map (Bn.toInt (2 ^ w))

/-- parse the oracle's "v:uN" -/
def outInt (s : String) : Option Int :=
  match s.splitOn ":u" with
  | [v, _] => parseHexInt v
  | _ => none

def handle (w cap digs : Nat) (op : String) (args : List String) (got : String) : Option Verdict :=
  let _ := cap
  let fmt := fun (v : Int) => fmtIntNF w v
  -- operands beyond the configured precision (RLC_BN_DIGS digits) may be refused with an error
  let tooLong : Bool := args.any fun t => match parseBn w t with
    | some b => b.used > digs
    | none => false
  let mk := fun (model spec : String) (tags : List String) =>
    some ({ model := if tooLong && got == "err" then "err" else model,
            spec := if tooLong then [spec, "err"] else [spec], tags := tags } : Verdict)
  match op, args with
  | "nt_srt", [a] => do
    let a ← pI w a
    if a < 0 then mk "err" "err" ["srt:neg-err"] else
    let n := a.toNat
    let (bits, h, l) := srtInit n
    let rounds := srtRounds n (srtFuel n) h l
    let tags := ["srt:model",
      if n = 0 then "srt:zero" else if bits = bitLen n then "srt:bits-even" else "srt:bits-odd",
      if (Nat.sqrt n) * (Nat.sqrt n) = n then "srt:exit-eq" else "srt:exit-width",
      if rounds = srtFuel n then "srt:rounds=fuel" else if rounds + 1 = srtFuel n then "srt:rounds=fuel-1" else "srt:rounds<fuel-1"]
    match bnSrt a with
    | some r => mk (fmt r) (fmt (Nat.sqrt n)) tags
    | none => mk "fuel-exhausted" (fmt (Nat.sqrt n)) tags
  | "nt_mod", [v, a, m] => do
    let a ← pI w a
    let m ← pI w m
    let B : Int := (2 : Int) ^ w
    let k := used w m.natAbs
    let R : Int := B ^ k
    let sm := fun (s : String) => if s.isEmpty then "" else ":" ++ s
    match v with
    | "pre_barrt" =>
      (match preBarrt w m with
      | none => mk "err" "err" ["pre_barrt:err"]
      | some u => mk (fmt u) (fmt (R * R / m)) ["pre_barrt:model", if used w u.toNat = k + 2 then "pre_barrt:u=B^(k+1)" else "pre_barrt:u-k+1-digits"])
    | "barrt" =>
      (match modBarrtFull w a m with
      | none => mk "err" "err" [if m = 0 then "barrt:err-zero" else "barrt:err-neg"]
      | some (r, path) =>
        -- specification: the residue in [0, m) for every integer a (negative operands canonical since fix 060ee71)
        let spec := fmt (a % m)
        let tags := match path with
          | .early => ["barrt:early-exit" ++ (if a < 0 then "-neg" else "")]
          | .long => ["barrt:long-a-fallback" ++ (if a < 0 then "-neg" else "")]
          | .main wrap n => ["barrt:main" ++ (if a < 0 then "-neg" else ""), if wrap then "barrt:wrap" else "barrt:nowrap",
                             "barrt:corrections=" ++ toString n] ++
                            (if a < 0 ∧ a % m = 0 then ["barrt:neg-multiple"] else [])
        mk (fmt r) spec ("barrt:model" :: tags))
    | "pre_monty" =>
      (match preMonty w m with
      | none => mk "err" "err" ["pre_monty:err" ++ sm (if m ≤ 0 then "nonpos" else "even")]
      | some u =>
        -- specification: the digit u with u·m ≡ -1 mod B
        let ok := match outInt got with
          | some g => (g * m + 1) % B == 0 && 0 ≤ g && g < B
          | none => false
        mk (fmt u) (if ok then got else "u with u*m = -1 mod B") ["pre_monty:model"])
    | "monty" | "monty_comba" | "monty_basic" | "monty_back" =>
      -- monty / monty_comba / monty_back: pre_monty + comba; monty_basic: pre_monty + basic
      let res := if v == "monty_basic" then (preMonty w m).bind fun u => modMontyBasic w a m u else montyBack w a m
      (match res with
      | none => mk "err" "err" [v ++ ":err" ++ sm (if m ≤ 0 then "nonpos" else "even")]
      | some (r, carry, fin) =>
        -- contract: 0 ≤ a < m·R; result a·R⁻¹ mod m, i.e. the r in [0, m) with r·R ≡ a; outside the contract no judgement
        let inC := decide (0 ≤ a ∧ a < m * R)
        let ok := match outInt got with
          | some g => decide (0 ≤ g ∧ g < m ∧ (g * R - a) % m = 0)
          | none => false
        let spec := if inC then (if ok then got else "a*R^-1 mod m") else got
        mk (fmt r) spec [v ++ ":model", v ++ (if inC then ":in-contract" else if a < 0 then ":neg-a" else if a < R * R then ":a>=mR" else ":a>=R^2"),
          v ++ (if carry then ":carry-sub" else ":no-carry"), v ++ (if fin then ":final-sub" else ":no-final-sub")])
    | "monty_conv" =>
      (match montyConv w a m with
      | none => mk "err" "err" ["monty_conv:err" ++ sm (if m ≤ 0 then "nonpos" else "even")]
      | some r => mk (fmt r) (fmt (a * R % m)) ["monty_conv:model" ++ (if a < 0 then "-neg" else if a ≥ m then "-a>=m" else "")])
    | "pmers" =>
      (match modPmersFull a m with
      | none => mk "err" "err" ["pmers:err"]
      | some (r, rounds, n) =>
        mk (fmt r) (fmt (a % m)) (["pmers:model" ++ (if a < 0 then "-neg" else ""),
          "pmers:rounds=" ++ (if rounds > 3 then ">3" else toString rounds), "pmers:subs=" ++ (if n > 3 then ">3" else toString n),
          if used w ((2 : Int) ^ bitLen m.toNat - m).toNat = 1 then "pmers:u-one-digit" else "pmers:u-multi-digit"] ++
          (if a < 0 ∧ a % m = 0 then ["pmers:neg-multiple"] else [])))
    | _ => none
  | _, _ => none

end Driver.C09Mod
