/- C15 handlers: Hash_DRBG histories, bn_rand, bn_rand_mod. -/
import Driver.Util
import RelicVerif.Spec.Sha256
import RelicVerif.Model.Sha256
import RelicVerif.Model.Drbg
import RelicVerif.Model.RandInt

namespace Driver.C15
open Relic.Model Driver
open Relic.Spec.HashDrbg (Bytes)

def parseBytes (s : String) : Option Bytes :=
  if s == "." then some [] else
  let cs := s.toList
  if cs.length % 2 ≠ 0 then none else
  let rec go : List Char → Option Bytes
    | a :: b :: rest => do
      let x ← hexDigit a
      let y ← hexDigit b
      let r ← go rest
      some (UInt8.ofNat (x * 16 + y) :: r)
    | [] => some []
    | _ => none
  go cs

def fmtBytes (b : Bytes) : String :=
  if b.isEmpty then "." else String.ofList (b.flatMap fun x => [hexChar (x.toNat / 16), hexChar (x.toNat % 16)])

def sha (b : Bytes) : Bytes := Relic.Spec.Sha256.sha256 b

def mcfg : Drbg.Cfg := { hash := sha }
def sparams : Relic.Spec.HashDrbg.Params := { hash := sha }

/-- model side of one token; returns new ctx and printed field -/
def modelTok (x : Drbg.Ctx) (t : String) : Drbg.Ctx × String :=
  if t.startsWith "s:" then
    match parseBytes (t.drop 2).toString with
    | none => (x, "bad")
    | some d => match Drbg.randSeed mcfg x d with
      | none => (x, "err")
      | some x' => (x', "ok")
  else if t.startsWith "g:" then
    match (t.drop 2).toString.toNat? with
    | none => (x, "bad")
    | some n => match Drbg.randBytes mcfg x n with
      | none => (x, "err")
      | some (out, x') => (x', fmtBytes out)
  else if t.startsWith "S:" then
    match (t.drop 2).toString.splitOn ":" with
    | [v, c, ctr] =>
      match parseBytes v, parseBytes c, ctr.toNat? with
      | some v, some c, some ctr =>
        if v.length = 55 ∧ c.length = 55 then ({ rand := [0] ++ v ++ c, counter := ctr, seeded := true }, "ok") else (x, "bad")
      | _, _, _ => (x, "bad")
    | _ => (x, "bad")
  else if t.startsWith "r:" then
    match ((t.drop 2).toString.splitOn ":").map String.toNat? with
    | [some count, some n] =>
      let rec go (k : Nat) (x : Drbg.Ctx) (last : String) : Drbg.Ctx × String :=
        match k with
        | 0 => (x, last)
        | k + 1 => match Drbg.randBytes mcfg x n with
          | none => (x, "err")
          | some (out, x') => go k x' (fmtBytes out)
      go count x "."
    | _ => (x, "bad")
  else (x, "bad")

open Relic.Spec.HashDrbg in
def specTok (s : Option Relic.Spec.HashDrbg.State) (t : String) : Option Relic.Spec.HashDrbg.State × String :=
  let fmt := fun (o : Out) => match o with
    | .ok b => fmtBytes b
    | .err => "err"
  if t.startsWith "s:" then
    match parseBytes (t.drop 2).toString with
    | none => (s, "bad")
    | some d => let (s', o) := step sparams s (.seed d); (s', if o == .err then "err" else "ok")
  else if t.startsWith "g:" then
    match (t.drop 2).toString.toNat? with
    | none => (s, "bad")
    | some n => let (s', o) := step sparams s (.gen n); (s', fmt o)
  else if t.startsWith "S:" then
    match (t.drop 2).toString.splitOn ":" with
    | [v, c, ctr] =>
      match parseBytes v, parseBytes c, ctr.toNat? with
      | some v, some c, some ctr =>
        if v.length = 55 ∧ c.length = 55 then (some { v := os2i v, c := os2i c, ctr := ctr }, "ok") else (s, "bad")
      | _, _, _ => (s, "bad")
    | _ => (s, "bad")
  else if t.startsWith "r:" then
    match ((t.drop 2).toString.splitOn ":").map String.toNat? with
    | [some count, some n] =>
      let rec go (k : Nat) (s : Option State) (last : String) : Option State × String :=
        match k with
        | 0 => (s, last)
        | k + 1 => let (s', o) := step sparams s (.gen n); go k s' (fmt o)
      go count s "."
    | _ => (s, "bad")
  else (s, "bad")

def runToks {σ : Type} (f : σ → String → σ × String) (s : σ) (toks : List String) : List String :=
  match toks with
  | [] => []
  | t :: ts => let (s', o) := f s t; o :: runToks f s' ts

/-- the DRBG model as byte source of Model/RandInt -/
def drawBytes (x : Drbg.Ctx) (n : Nat) : Option (List UInt8 × Drbg.Ctx) :=
  Drbg.randBytes mcfg x n

/-- bn_rand (Model/RandInt.bnRand over the DRBG model) -/
def bnRandModel (w cap : Nat) (x : Drbg.Ctx) (neg : Bool) (bits0 : Nat) : Option (Bn × Drbg.Ctx) :=
  (Relic.Model.RandInt.bnRand drawBytes w cap x bits0).map fun (dp, x') => (bnTrim { neg := neg, dp := dp }, x')

/-- bn_rand_mod for a bound b ≥ 2 (Model/RandInt.bnRandMod; Props/C15.bn_rand_mod_range is about this function) -/
def bnRandModModel (w cap : Nat) (b : Nat) (fuel : Nat) (x : Drbg.Ctx) : Option Nat :=
  Relic.Model.RandInt.bnRandMod drawBytes w cap b fuel x

def handle (w cap : Nat) (op : String) (args : List String) (got : String) : Option Verdict :=
  match op with
  | "bn_rand_mod" =>
    match args with
    | [seed, bs] => do
      let seed ← parseBytes seed
      let b ← parseHexNat bs
      if b < 2 then none else
      let x ← Drbg.randSeed mcfg Drbg.init seed
      let m := match bnRandModModel w cap b 64 x with
        | some r => fmtIntNF w r
        | none => "err"
      -- spec: an integer in [1, b) in normal form
      let okSpec : Bool := match (got.splitOn ":u") with
        | [v, _] => match parseHexInt v with
          | some z => decide (1 ≤ z ∧ z < (b : Int)) && got == fmtIntNF w z
          | none => false
        | _ => got == "err" && (bitLen b + 40 + w - 1) / w + 1 > cap
      some { model := m, spec := if okSpec then [got] else ["<an integer in [1, " ++ bs ++ ")>"],
             tags := ["rand_mod", if b < 2 ^ w then "rand_mod.small" else "rand_mod.multi"] }
    | _ => none
  | "drbg" =>
    let m := String.intercalate " " (runToks modelTok Drbg.init args)
    let s := String.intercalate " " (runToks specTok none args)
    some { model := m, spec := [s] }
  | "md_map" =>
    match args with
    | ["sh256", h] => do
      let b ← parseBytes h
      let m := match Sha256.mdMap b with
        | some d => fmtBytes d
        | none => "err"
      some { model := m, spec := [fmtBytes (sha b)] }
    | _ => none
  | "bn_rand" =>
    match args with
    | [seed, sign, bits] => do
      let seed ← parseBytes seed
      let bits ← bits.toNat?
      let x ← Drbg.randSeed mcfg Drbg.init seed
      let m := match bnRandModel w cap x (sign == "1") bits with
        | some (a, _) => fmtBn w a
        | none => "err"
      -- spec: at most `bits` bits (a deterministic function of the state: pinned by the model column)
      let okSpec : Bool := match (got.splitOn ":u") with
        | [v, _] => match parseHexInt v with
          | some z => decide (z.natAbs < 2 ^ bits)
          | none => got == "err" && (bits + w - 1) / w > cap
        | _ => got == "err" && (bits + w - 1) / w > cap
      some { model := m, spec := if okSpec then [got] else ["<a value with at most " ++ toString bits ++ " bits>"] }
    | _ => none
  | "bn_rand_st" =>
    match args with
    | [seed, sign, bits] => do
      let seed ← parseBytes seed
      let bits ← bits.toNat?
      let x ← Drbg.randSeed mcfg Drbg.init seed
      -- model: the value and the state after the call (Props/C15.bn_rand_state: one draw of ⌈bits/w⌉·(w/8) bytes); the state is
      -- shown by the next 16 bytes of the generator
      let (v, x') := match bnRandModel w cap x (sign == "1") bits with
        | some (a, x') => (fmtBn w a, x')
        | none => ("err", x)
      let nxt := match Drbg.randBytes mcfg x' 16 with
        | some (b, _) => fmtBytes b
        | none => "err"
      let m := v ++ " n:" ++ nxt
      -- spec: at most `bits` bits (Props/C15.bn_rand_bits); the follow-up bytes are those of Hash_DRBG after one generate of that size
      let digits := Relic.Model.RandInt.digitsFor w bits
      let specNext := if digits > cap then (runToks specTok none ["s:" ++ fmtBytes seed, "g:16"]).getLastD "?"
        else (runToks specTok none ["s:" ++ fmtBytes seed, "g:" ++ toString (digits * (w / 8)), "g:16"]).getLastD "?"
      let gv := (got.splitOn " ").headD ""
      let okSpec : Bool := match (gv.splitOn ":u") with
        | [v, _] => match parseHexInt v with
          | some z => decide (z.natAbs < 2 ^ bits) && (z ≥ 0 || sign == "1") && (z ≤ 0 || sign == "0")
          | none => false
        | _ => gv == "err" && digits > cap
      some { model := m, spec := if okSpec then [gv ++ " n:" ++ specNext] else ["<a value with at most " ++ toString bits ++ " bits> n:" ++ specNext],
             tags := ["bn_rand", if bits == 0 then "bn_rand.zero" else if bits % w == 0 then "bn_rand.nomask" else "bn_rand.mask",
                      if digits > cap then "bn_rand.refused" else if digits ≤ 1 then "bn_rand.onedigit" else "bn_rand.multi"] }
    | _ => none
  | "fp_rand" =>
    match args with
    | [seed, _id, ps, bitss, digss] => do
      let seed ← parseBytes seed
      let p ← parseHexNat ps
      let fpBits ← bitss.toNat?
      let fpDigs ← digss.toNat?
      if p == 0 then none else
      let x ← Drbg.randSeed mcfg Drbg.init seed
      let ctxs := "p=" ++ fmtRaw w (toDigitsN w p fpDigs) ++ " bits=" ++ bitss ++ " digs=" ++ digss
      let (m, masked) := match Relic.Model.RandInt.fpRand drawBytes w fpDigs fpBits p x with
        | some (a, x') =>
          let nxt := match Drbg.randBytes mcfg x' 16 with
            | some (b, _) => fmtBytes b
            | none => "err"
          let masked := match drawBytes x (fpDigs * (w / 8)) with
            | some (bytes, _) => Relic.Model.RandInt.valDigits w (Relic.Model.RandInt.maskTop (Relic.Model.RandInt.digitsOf bytes w fpDigs) (fpBits % w))
            | none => 0
          (ctxs ++ " a=" ++ fmtRaw w (toDigitsN w a fpDigs) ++ " n:" ++ nxt, masked)
        | none => ("err", 0)
      -- spec: a reduced element (Props/C15.fp_rand_reduced), the generator advanced by one generate of RLC_FP_DIGS·(w/8) bytes
      let specNext := (runToks specTok none ["s:" ++ fmtBytes seed, "g:" ++ toString (fpDigs * (w / 8)), "g:16"]).getLastD "?"
      let ga := ((got.splitOn " a=").getD 1 "").splitOn " n:"
      let okSpec : Bool := match parseHexNat (ga.headD "") with
        | some a => decide (a < p) && (ga.headD "").length == fpDigs * (w / 4)
        | none => false
      some { model := m, spec := if okSpec then [ctxs ++ " a=" ++ ga.headD "" ++ " n:" ++ specNext] else [ctxs ++ " a=<reduced> n:" ++ specNext],
             tags := ["fp_rand", if fpBits % w == 0 then "fp_rand.nomask" else "fp_rand.mask",
                      "fp_rand.sub" ++ toString (min (masked / p) 3)] }
    | _ => none
  | "fb_rand" =>
    match args with
    | [seed, bitss, digss] => do
      let seed ← parseBytes seed
      let fbBits ← bitss.toNat?
      let fbDigs ← digss.toNat?
      let x ← Drbg.randSeed mcfg Drbg.init seed
      let ctxs := "bits=" ++ bitss ++ " digs=" ++ digss
      let m := match Relic.Model.RandInt.fbRand drawBytes w fbDigs fbBits x with
        | some (dp, x') =>
          let nxt := match Drbg.randBytes mcfg x' 16 with
            | some (b, _) => fmtBytes b
            | none => "err"
          ctxs ++ " a=" ++ fmtRaw w dp ++ " n:" ++ nxt
        | none => "err"
      -- spec: degree below RLC_FB_BITS (Props/C15.fb_rand_degree), the generator advanced by one generate of RLC_FB_DIGS·(w/8) bytes
      let specNext := (runToks specTok none ["s:" ++ fmtBytes seed, "g:" ++ toString (fbDigs * (w / 8)), "g:16"]).getLastD "?"
      let ga := ((got.splitOn " a=").getD 1 "").splitOn " n:"
      let okSpec : Bool := match parseHexNat (ga.headD "") with
        | some a => decide (a < 2 ^ fbBits) && (ga.headD "").length == fbDigs * (w / 4) && fbDigs == Relic.Model.RandInt.digitsFor w fbBits
        | none => false
      some { model := m, spec := if okSpec then [ctxs ++ " a=" ++ ga.headD "" ++ " n:" ++ specNext] else [ctxs ++ " a=<degree below m> n:" ++ specNext],
             tags := ["fb_rand", if fbBits % w == 0 then "fb_rand.nomask" else "fb_rand.mask"] }
    | _ => none
  | _ => none

end Driver.C15
