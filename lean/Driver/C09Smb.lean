/- C09 extension (Smb family): driver cases whose model column is the Lean model's prediction.
   nt_smb jac  : Model/NtSmb.lean (bn_smb_jac);  nt_prime rabin : Model/NtSmbPrime.lean (bn_is_prime_rabin). -/
import Driver.C02
import RelicVerif.Model.NtSmb
import RelicVerif.Model.NtSmbPrime
import RelicVerif.Model.NtSmbPrime2

namespace Driver.C09Smb
open Driver Relic.Model

def pI (w : Nat) (s : String) : Option Int := (parseBn w s).map (Bn.toInt (2 ^ w))

/-- textbook Jacobi symbol (a/n), n odd positive (the specification column; same definition as Driver.C09.jacobi) -/
partial def jacobi (a n : Int) : Int :=
  let a := a % n
  if n = 1 then 1
  else if a = 0 then 0
  else
    let rec twos (a : Int) (t : Int) : Int × Int :=
      if a % 2 = 0 then
        let r := n % 8
        twos (a / 2) (if r = 3 ∨ r = 5 then -t else t)
      else (a, t)
    let (a, t) := twos a 1
    let t := if a % 4 = 3 ∧ n % 4 = 3 then -t else t
    t * jacobi (n % a) a

/-- ground truth below 2^80: deterministic Miller–Rabin with the first 13 primes (copy of Driver.C09.isProbablePrime64) -/
def isProbablePrime64 (n : Nat) : Bool :=
  if n < 2 then false
  else if [2, 3, 5, 7, 11, 13, 17, 19, 23, 29, 31, 37, 41].contains n then true
  else if [2, 3, 5, 7, 11, 13, 17, 19, 23, 29, 31, 37, 41].any (fun p => n % p = 0) then false
  else
    let rec split (d s : Nat) (fuel : Nat) : Nat × Nat :=
      match fuel with
      | 0 => (d, s)
      | f + 1 => if d % 2 = 0 then split (d / 2) (s + 1) f else (d, s)
    let (d, s) := split (n - 1) 0 (Nat.log2 n + 1)
    [2, 3, 5, 7, 11, 13, 17, 19, 23, 29, 31, 37, 41].all fun a =>
      let x := C02.powMod a d n
      if x = 1 ∨ x = n - 1 then true
      else (List.range (s - 1)).foldl (fun (st : Nat × Bool) _ =>
        let y := st.1 * st.1 % n
        (y, st.2 || y = n - 1)) (x, false) |>.2

def itersBucket (k : Nat) : String :=
  if k = 0 then "0" else if k = 1 then "1" else if k ≤ 3 then "2-3" else if k ≤ 8 then "4-8" else if k ≤ 32 then "9-32" else ">32"

def handle (w cap digs : Nat) (op : String) (args : List String) (got : String) : Option Verdict :=
  let _ := cap
  let tooLong : Bool := args.any fun t => match parseBn w t with
    | some b => b.used > digs
    | none => false
  match op, args with
  | "nt_smb", ["jac", a, b] => do
    let a ← pI w a
    let b ← pI w b
    if tooLong then none else
    if NtSmb.jacErr b then
      some { model := "err", spec := ["err"], tags := ["smb:jac:err-" ++ (if b < 0 then "negative" else "even")] }
    else
      let spec := toString (jacobi a b)
      match NtSmb.jacT w a b with
      | none => some { model := "model-fuel-exhausted", spec := [spec], tags := ["smb:jac:FUEL"] }
      | some (r, tr) =>
        let tags := [ "smb:jac:" ++ (if tr.iters = 0 then "single-digit-only" else if tr.singlePath then "multi-then-single" else "multi-ends-in-zero-test"),
                      "smb:jac:outer-iters-" ++ itersBucket tr.iters,
                      "smb:jac:result=" ++ toString r ] ++
          (if tr.swapped then ["smb:jac:swap"] else []) ++
          (if tr.zBig then ["smb:jac:z>w/2"] else []) ++
          (if tr.neg0 then ["smb:jac:t0-negative-after-combination"] else []) ++
          (if tr.neg1 then ["smb:jac:t1-negative-after-combination"] else []) ++
          (if a < 0 then ["smb:jac:a-negative"] else []) ++
          (if a ≥ b then ["smb:jac:a>=b"] else [])
        some { model := toString r, spec := [spec], tags := tags }
  | "nt_prime", v :: a :: rest => do
    let a ← pI w a
    if tooLong then none else
    if v != "rabin" && v != "basic" && v != "prime" && v != "solov" then none else
    -- bn_is_prime_solov is documented for a > 2; 1 and 2 loop forever, even inputs are refused by the Jacobi symbol: left to the old case
    if v == "solov" && (a ≤ 2 || a % 2 == 0) then none else
    -- ground truth exactly as in Driver.C09.handleC
    let truth : Option Bool :=
      if a < 2 then some false
      else if a < 2 ^ 80 then some (isProbablePrime64 a.toNat)
      else match rest with
        | ["P"] => some true
        | ["C", f] => match parseHexNat f with
          | some f => if f > 1 ∧ (f : Int) < a ∧ a % f = 0 then some false else none
          | none => none
        | _ => none
    match truth with
    | some t =>
      let n := a.toNat
      let b2s := fun (b : Bool) => if b then "1" else "0"
      let verdictTag := fun (m : Bool) => (if t then "prime" else "composite") ++ (if m then "-accepted" else "-rejected")
      if v == "rabin" then
        let m := NtSmbPrime.rabin a
        let tags :=
          if a < 2 then ["prime:rabin:below-2"] else if a = 2 then ["prime:rabin:two"] else if a % 2 = 0 then ["prime:rabin:even"]
          else [ "prime:rabin:tests-" ++ toString (NtSmbPrime.tests (NtSmbPrime.bitLen n)),
                 "prime:rabin:" ++ (if NtSmbPrime.basesUsed n < NtSmbPrime.tests (NtSmbPrime.bitLen n) then "base>=n-1-early-accept" else "all-bases-run"),
                 "prime:rabin:" ++ verdictTag m ]
        some { model := b2s m, spec := [b2s t], tags := tags }
      else if v == "basic" then
        -- documented as trial division: primes are accepted; a composite may pass, a rejection must be right
        let m := NtSmbPrime.basic w a
        let tags := [ "prime:basic:" ++ (if a = 1 then "one" else if a < 0 then "negative" else if a = 0 then "zero"
                        else if NtSmbPrime.primesAll.take (NtSmbPrime.basicTests w) |>.contains n then "table-prime" else verdictTag m) ]
        some { model := b2s m, spec := if t then ["1"] else ["0", "1"], tags := tags }
      else if v == "prime" then
        let m := NtSmbPrime.isPrime w a
        let tags := [ "prime:prime:" ++ (if !NtSmbPrime.basic w a then "rejected-by-trial-division" else if !NtSmbPrime.rabin a then "rejected-by-rabin" else "accepted"),
                      "prime:prime:" ++ verdictTag m ]
        some { model := b2s m, spec := [b2s t], tags := tags }
      else
        -- solov, odd a > 2: the bases come from the random generator; the model (Model/NtSmbPrime2.solov) is base-independent exactly
        -- for primes (prime_solov_complete): prediction "1" there, otherwise only the specification judges
        some { model := if t then "1" else got, spec := [b2s t],
               tags := ["prime:solov:" ++ (if t then "prime-predicted-by-theorem" else "composite-spec-only")] }
    | none => none
  | _, _ => none

end Driver.C09Smb
