/- C04 handlers for the final exponentiation (class A part of the property).
   `fexp`  : pp_exp_k12 on an arbitrary element of Fp12.  model = the chain GENERATED from the C text (Gen/PpExp.lean: dispatcher,
             chain, fp12_conv_cyc) + the hand model of fp12_exp_cyc_sps, executed with the driver's own Fp12 arithmetic (generic
             tower specification); spec = f^(c·(p^12−1)/r) by plain square-and-multiply, c the constant of the theorem
             (Props/C04B.lean: BN 2x(6x²+3x+1), SM9 1, BLS12 3).  The hypotheses of the theorems are evaluated on the reported
             parameters (p = p(x), r = r(x), sparse form denotes |x|, gcd(c, r) = 1, r | p⁴ − p² + 1).
   `fcyc`  : fp12_conv_cyc; model = generated definition, spec = f^((p^6−1)(p^2+1)).
   `expsps`: fp12_exp_cyc_sps on a cyclotomic element with an arbitrary sparse form; model = Model/PpExp.expCycSps,
             spec = a^(±value of the form). -/
import Driver.C12
import RelicVerif.Gen.PpExp
import RelicVerif.Model.PpMiller
import RelicVerif.Gen.PpLine

namespace Driver.C04
open Driver Relic.Spec.Tower Relic.Model.PpExp Relic.Model.PpMiller

structure Env where
  base : C12.Env
  x : Int
  sps : List Int
  fam : String
  par : String
  tbl : Thunk FrobTable

def parseIntDec (s : String) : Option Int := s.toInt?

def mkEnv (e : C12.Env) : Option Env := do
  let x ← parseHexInt (← e.kv.lookup "x")
  let spsS ← e.kv.lookup "sps"
  let sps ← if spsS == "." then some [] else (spsS.splitOn ",").mapM parseIntDec
  some { base := e, x := x, sps := sps, fam := (e.kv.lookup "famname").getD "?", par := (e.kv.lookup "parname").getD "?",
         tbl := Thunk.mk fun _ => e.d12.frobTable }

/-- the driver's own arithmetic as the operation record of the generated chains -/
def descOps (d : Desc) (tbl : Thunk FrobTable) : CycOps (List Nat) where
  one := d.one
  mul := d.mul
  sqrCyc := d.sqr
  sqrPck := d.sqr
  back := fun a => a
  invCyc := d.conj
  inv := fun a => (d.inv? a).getD d.zero
  frb := fun a i => d.frobeniusViaPow tbl.get a i

/-- the family polynomials and the constant c of the theorem: (p(x) as 3·p for BLS12 to stay in ℤ, r(x), c) -/
def family (e : Env) : Option (Int × Int × Int × Int) :=
  let x := e.x
  if e.fam == "EP_BN" then
    some (1, 36 * x ^ 4 + 36 * x ^ 3 + 24 * x ^ 2 + 6 * x + 1, 36 * x ^ 4 + 36 * x ^ 3 + 18 * x ^ 2 + 6 * x + 1,
          if e.par == "SM9_P256" then 1 else 2 * x * (6 * x ^ 2 + 3 * x + 1))
  else if e.fam == "EP_B12" then
    some (3, (x - 1) ^ 2 * (x ^ 4 - x ^ 2 + 1) + 3 * x, x ^ 4 - x ^ 2 + 1, 3)
  else none

/-- the hypotheses of the chain theorems on the reported parameters; empty = all hold -/
def hypotheses (e : Env) : List String :=
  let p : Int := e.base.d12.p
  let r : Int := e.base.n
  match family e with
  | none => ["family " ++ e.fam ++ " has no chain theorem"]
  | some (k, px, rx, c) =>
    (if k * p == px then [] else ["p is not the family polynomial at x"]) ++
    (if r == rx then [] else ["r is not the family polynomial at x"]) ++
    (if (p ^ 4 - p ^ 2 + 1) % r == 0 then [] else ["r does not divide p^4 - p^2 + 1"]) ++
    (if spsVal e.sps == e.x.natAbs then [] else ["the sparse form does not denote |x|"]) ++
    (if Nat.gcd c.natAbs r.natAbs == 1 then [] else ["gcd(c, r) != 1"]) ++
    (if e.par == "SM9_P256" && e.x < 0 then ["the SM9 chain needs x > 0"] else []) ++
    (if e.fam == "EP_B12" && e.sps.head? != some 0 && !(e.sps.all fun bi => 1 ≤ bi || bi ≤ -2) then ["BLS12 chain: an entry 0 / -1 in the sparse form of an even parameter"] else [])

/-- c·(p^12 − 1)/r reduced into [0, p^12 − 1) -/
def finalExponent (e : Env) : Option Nat :=
  let p : Int := e.base.d12.p
  let r : Int := e.base.n
  (family e).map fun (_, _, _, c) => ((c * ((p ^ 12 - 1) / r)) % (p ^ 12 - 1)).toNat

def branchTags (e : Env) : List String :=
  ["chain." ++ (if e.fam == "EP_BN" then (if e.par == "SM9_P256" then "sm9" else "bn") else if e.fam == "EP_B12" then "b12" else "none"),
   if e.x < 0 then "x<0" else "x>0", if e.sps.head? == some 0 then "b0=0" else "b0!=0"]

def handle (e : Env) (op : String) (args : List String) (got : String) : Option Verdict :=
  let d := e.base.d12
  let o := descOps d e.tbl
  match op, args with
  | "fexp", [v, a] => do
    let a ← d.parse? a
    if d.isZero a then
      -- 0 is not in the domain (no inverse): the library reports the failed inversion; the value 0^k = 0 is admitted too
      some { model := got, spec := ["err", d.fmt d.zero], tags := ["fexp.zero"] }
    else
    let hyp := hypotheses e
    if !hyp.isEmpty then some { model := got, spec := ["<" ++ String.intercalate "; " hyp ++ ">"], tags := ["fexp.hyp"] } else
    let model := match Relic.Gen.PpExp.pp_exp_k12 o e.fam e.par (e.x < 0) e.sps a with
      | some c => d.fmt c
      | none => "<no case of pp_exp_k12 writes the result>"
    let spec := match finalExponent e with
      | some k => d.fmt (d.pow a k)
      | none => "<no exponent>"
    let cls := if d.isOne a then "one" else if d.isOne (d.pow a (e.base.n)) then "order-r"
      else if d.isOne (d.mul (d.frobeniusViaPow e.tbl.get a 6) a) then "cyclotomic-or-unitary" else "generic"
    some { model := model, spec := [spec], tags := ["fexp." ++ v, "fexp.in." ++ cls] ++ branchTags e }
  | "fcyc", [v, a] => do
    let a ← d.parse? a
    if d.isZero a then some { model := got, spec := ["err", d.fmt d.zero], tags := ["fcyc.zero"] } else
    let p := d.p
    some { model := d.fmt (Relic.Gen.PpExp.fp12_conv_cyc o a), spec := [d.fmt (d.pow a ((p ^ 6 - 1) * (p ^ 2 + 1)))], tags := ["fcyc." ++ v] }
  | "expsps", [v, a, sg, bs] => do
    let a ← d.parse? a
    let b ← if bs == "." then some [] else (bs.splitOn ",").mapM parseIntDec
    let neg := sg == "neg"
    -- the contract is for cyclotomic elements (a^(p^6+1) = 1 and a^(p^4−p^2+1) = 1: compressed squarings); outside: compared only
    let cyc := d.isOne (d.mul (d.frobeniusViaPow e.tbl.get a 6) a) &&
      d.isOne (d.mul (d.mul (d.frobeniusViaPow e.tbl.get a 4) a) (d.conj (d.frobeniusViaPow e.tbl.get a 2)))
    if !cyc then some { model := got, spec := [got], tags := ["expsps.outside"] } else
    let k := spsVal b
    let k := if neg then -k else k
    let specv := if k < 0 then d.pow (d.conj a) k.natAbs else d.pow a k.natAbs
    -- strictly ascending positions are what fp_prime_set_pairf produces; other lists exercise the `j never goes back` reading
    let asc := (b.zip (b.drop 1)).all fun (u, w) => u.natAbs < w.natAbs
    some { model := d.fmt (expCycSps o a b neg), spec := [d.fmt specv],
           tags := ["expsps." ++ v, "expsps." ++ sg, if b.isEmpty then "len0" else if b.head? == some 0 then "b0=0" else "b0!=0",
                    if asc then "ascending" else "not-ascending", if b.any (· < 0) then "has-neg" else "all-pos"] }
  | _, _ => none

/-! ### the pairing maps: Miller-loop models (Model/PpMiller.lean) executed over the curve E(Fp12) with affine lines

Everything happens on E : y² = x³ + a·x + b over Fp12 in affine coordinates with the driver's generic tower arithmetic: G1 points
are embedded coefficient-wise, G2 points through the untwisting map ψ(x', y') = (x'·u², y'·u³), u = w (D-type twist) or w⁻¹ (M-type),
whichever puts ψ(G₂) on E.  The line functions are the textbook chord and tangent; the library's projective / sparse lines differ
from them by factors in proper subfields, which the final exponentiation removes — so the comparison is made AFTER the final
exponentiation (itself the generated chain), value for value. -/

abbrev Pt12 := Option (List Nat × List Nat)

/-- inverse in the tower by the norm formulas of a quadratic / cubic level (recursively), CHECKED against the definition
    (a · a⁻¹ = 1) and replaced by the Gauss–Jordan inverse of the specification when the check fails -/
def invTower (p : Nat) : List Level → List Nat → List Nat
  | [], a => [Relic.Model.Formula.invEuclid p (a.headD 0)]
  | l :: ls, a =>
    let d : Desc := { p := p, levels := l :: ls }
    let b : Desc := { p := p, levels := ls }
    let n := Relic.Spec.Tower.dim ls
    let cs := chunks n l.deg a
    let c := l.nr
    match l.deg, cs with
    | 2, [a0, a1] =>
      let t := b.sub (b.mul a0 a0) (b.mul c (b.mul a1 a1))
      let ti := invTower p ls t
      b.mul a0 ti ++ b.neg (b.mul a1 ti)
    | 3, [a0, a1, a2] =>
      let A := b.sub (b.mul a0 a0) (b.mul c (b.mul a1 a2))
      let B := b.sub (b.mul c (b.mul a2 a2)) (b.mul a0 a1)
      let C := b.sub (b.mul a1 a1) (b.mul a0 a2)
      let N := b.add (b.mul a0 A) (b.mul c (b.add (b.mul a2 B) (b.mul a1 C)))
      let ni := invTower p ls N
      b.mul A ni ++ b.mul B ni ++ b.mul C ni
    | _, _ => (d.inv? a).getD d.zero

def inv12 (d : Desc) (a : List Nat) : List Nat :=
  let i := invTower d.p d.levels (d.canon a)
  if d.isOne (d.mul a i) then i else (d.inv? a).getD d.zero

structure E12 where
  d : Desc
  a : List Nat
  b : List Nat

def E12.onCurve (e : E12) : Pt12 → Bool
  | none => true
  | some (x, y) => e.d.eq (e.d.mul y y) (e.d.add (e.d.mul x (e.d.mul x x)) (e.d.add (e.d.mul e.a x) e.b))

def E12.neg (e : E12) : Pt12 → Pt12
  | none => none
  | some (x, y) => some (x, e.d.neg y)

/-- chord / tangent through t and q evaluated at p, and t + q; the vertical line when t + q = O -/
def E12.line (e : E12) (t q p : Pt12) : List Nat × Pt12 :=
  let d := e.d
  match t, q, p with
  | some (x1, y1), some (x2, y2), some (xp, yp) =>
    let same := d.eq x1 x2
    if same && !(d.eq y1 y2 && !d.isZero y1) then (d.sub xp x1, none) else
    let lam := if same then d.mul (d.add (d.mul (d.ofNat 3) (d.mul x1 x1)) e.a) (inv12 d (d.add y1 y1))
               else d.mul (d.sub y2 y1) (inv12 d (d.sub x2 x1))
    let l := d.sub (d.sub yp y1) (d.mul lam (d.sub xp x1))
    let x3 := d.sub (d.sub (d.mul lam lam) x1) x2
    let y3 := d.sub (d.mul lam (d.sub x1 x3)) y1
    (l, some (x3, y3))
  | none, q, _ => (d.one, q)
  | t, none, _ => (d.one, t)
  | _, _, none => (d.one, none)

def milOps (e : E12) : MilOps (List Nat) Pt12 Pt12 where
  mul := e.d.mul
  sqr := e.d.sqr
  dbl := fun t p => e.line t t p
  add := fun t q p => e.line t q p
  neg := e.neg

structure PEnv where
  env : Env
  e12 : E12
  /-- u with ψ(x', y') = (x'·u², y'·u³) -/
  u : List Nat

def embed2 (d12 : Desc) (a : List Nat) : List Nat := d12.canon (a ++ List.replicate (d12.dim - a.length) 0)

def untwist (d : Desc) (u : List Nat) : Relic.Spec.CurveX.PointX → Pt12
  | none => none
  | some (x, y) =>
    let u2 := d.mul u u
    some (d.mul (embed2 d x) u2, d.mul (embed2 d y) (d.mul u2 u))

def embed1 (d : Desc) : Relic.Spec.Curve.Point → Pt12
  | none => none
  | some (x, y) => some (d.ofNat x, d.ofNat y)

def mkPEnv (e : Env) : Option PEnv :=
  let d := e.base.d12
  let e12 : E12 := { d := d, a := d.ofNat e.base.c1.a, b := d.ofNat e.base.c1.b }
  let w := d.gen
  let cands := [w, inv12 d w]
  (cands.find? fun u => e.base.e2.g != none && e12.onCurve (untwist d u e.base.e2.g)).map fun u => { env := e, e12 := e12, u := u }

def mapOps (pe : PEnv) : MapOps (List Nat) Pt12 :=
  let e := pe.env
  let d := e.base.d12
  let o := descOps d e.tbl
  { one := d.one, invCyc := d.conj, inv := inv12 d,
    finalExp := fun f => Relic.Gen.PpExp.pp_exp_k12 o e.fam e.par (e.x < 0) e.sps f,
    frb := fun t i => match t with
      | none => none
      | some (x, y) => some (d.frobeniusViaPow e.tbl.get x i, d.frobeniusViaPow e.tbl.get y i) }

def nafOf (k : Nat) : List Int := (Relic.Model.Rec.recNaf (Relic.Model.Rec.bitLen k + 2) k 2).getD []

/-- the model of pp_map_(sim_)<variant>_k12 on pairs (P, Q): the identity filter of the C code, then the loops -/
def pairingModel (pe : PEnv) (v : String) (pqs : List (Relic.Spec.Curve.Point × Relic.Spec.CurveX.PointX)) : Option (List Nat) :=
  let e := pe.env
  let d := e.base.d12
  let o := milOps pe.e12
  let m := mapOps pe
  let live := pqs.filter fun (p, q) => p != none && q != none
  let qp := live.map fun (p, q) => (untwist d pe.u q, embed1 d p)
  let pq := live.map fun (p, q) => (embed1 d p, untwist d pe.u q)
  match v with
  | "oatep" =>
    let a : Int := if e.fam == "EP_BN" then 6 * e.x + 2 else e.x
    mapOatep o m e.fam e.x (nafOf a.natAbs) qp
  | "tatep" => mapTatep o m e.base.n pq
  | "weilp" => mapWeilp o o m e.base.n (nafOf (e.base.n - 1)) pq qp
  | _ => none

def handleMap (pe : PEnv) (op : String) (args : List String) (got : String) : Option Verdict :=
  let e := pe.env
  let d := e.base.d12
  let d2 := e.base.e2.c.d
  -- the spec column: the properties of the value (order r, non-trivial unless an identity operand) — bilinearity is judged on the
  -- ppb lines of the same stream; here the MODEL column carries the weight
  let judge := fun (v : String) (pqs : List (Relic.Spec.Curve.Point × Relic.Spec.CurveX.PointX)) (n : Nat) =>
    let v' := if v == "map" then ((e.base.kv.lookup "ppmap").getD "?").toLower else v
    let model := match pairingModel pe v' pqs with
      | some r => d.fmt r
      | none => "<no model for variant " ++ v ++ ">"
    let specOk := match d.parse? got with
      | some r => d.isOne (d.pow r e.base.n)
      | none => false
    some { model := model, spec := [if specOk then got else "<element of order dividing r>"],
           tags := ["ppm." ++ v, "ppm.n" ++ toString n, "ppm.live" ++ toString (pqs.filter fun (p, q) => p != none && q != none).length] ++ branchTags e : Verdict }
  match op, args with
  | "ppm", [v, p, q] => do
    let p ← C03.parsePoint p
    let q ← C11.parsePoint d2 q
    judge v [(p, q)] 1
  | "ppms", v :: n :: rest => do
    let n ← n.toNat?
    let rec pairs : List String → Option (List (Relic.Spec.Curve.Point × Relic.Spec.CurveX.PointX))
      | p :: q :: r => do
        let p ← C03.parsePoint p
        let q ← C11.parsePoint d2 q
        some ((p, q) :: (← pairs r))
      | [] => some []
      | _ => none
    let pqs ← pairs rest
    if pqs.length != n then none else judge v pqs n
  | _, _ => none

/-- the tower arithmetic of a level as the field-operation record of the generated formulas -/
def fopsOf (d : Desc) : Relic.Model.Formula.FOps (List Nat) where
  zero := d.zero
  one := d.one
  add := d.add
  sub := d.sub
  mul := d.mul
  neg := d.neg
  sqr := d.sqr
  dbl := fun a => d.add a a
  hlv := fun a => a
  inv := fun a => (d.inv? a).getD d.zero
  ofNat := d.ofNat
  isZero := d.isZero

/-- the sparse element with the symbolic slots placed as the C code places them: l[i][j] is the Fp2 block 3·i + j of the twelve
    coefficients; `zero`/`one` are exchanged for an M-type twist -/
def placeSlots (mtype : Bool) (o : Relic.Gen.PpLine.LineOut (List Nat)) : List Nat :=
  let z := if mtype then 1 else 0
  let n := if mtype then 0 else 1
  let blocks : List (Nat × List Nat) := [(3 * z + z, o.l00), (3 * z + n, o.l01), (3 * n + z, o.l10), (3 * n + n, o.l11)]
  ((List.range 6).map fun k => match blocks.find? (fun b => b.1 == k) with
    | some b => b.2
    | none => [0, 0]).flatten

/-- `lfn`: the line functions called directly.  MODEL column (class A): the definitions GENERATED from the C text (Gen/PpLine.lean,
    general-b branch, lazy-reduction variant = basic variant as values) executed with the driver's Fp2 arithmetic on the operands in
    the representation the library received; the slots placed by twist type; the updated point normalised.  SPEC column: the updated
    point is the doubled / added point of the curve law and the sparse element is the affine chord / tangent evaluated at the other
    argument UP TO A FACTOR IN A PROPER SUBFIELD of Fp12 (ρ^(p⁴) = ρ or ρ^(p⁶) = ρ) — the factors the final exponentiation removes. -/
def handleLine (pe : PEnv) (op : String) (args : List String) (got : String) : Option Verdict :=
  let e := pe.env
  let d := e.base.d12
  let d2 := e.base.e2.c.d
  let c1 := e.base.c1
  let c2 := e.base.e2.c
  let tbl := e.tbl.get
  let o2 := fopsOf d2
  let mtype := !(d.eq pe.u d.gen)
  let optbTwo := (e.base.kv.lookup "optbtwo").getD "0" == "1"
  let emb := fun (x : Nat) => d2.canon [x % d2.p, 0]
  let fmtOut2 := fun (o : Relic.Gen.PpLine.LineOut (List Nat)) =>
    d.fmt (placeSlots mtype o) ++ " " ++
      (if d2.isZero o.z then "inf" else
        let zi := (d2.inv? o.z).getD d2.zero
        C11.fmtPoint d2 (some (d2.mul o.x zi, d2.mul o.y zi)))
  let fmtOut1 := fun (o : Relic.Gen.PpLine.LineOut (List Nat)) =>
    d.fmt (placeSlots mtype o) ++ " " ++
      (if d2.isZero o.z then "inf" else
        let zi := (d2.inv? o.z).getD d2.zero
        C03.fmtPoint (some ((d2.canon (d2.mul o.x zi)).headD 0, (d2.canon (d2.mul o.y zi)).headD 0)))
  let judge := fun (v : String) (model : String) (affLine : List Nat) (expPt : String) =>
    let model := if optbTwo then got else model
    match got.splitOn " " with
    | [ls, pt] =>
      match d.parse? ls with
      | some l =>
        let rho := d.mul l (inv12 d affLine)
        let inFp2 := d.eq (d.frobeniusViaPow tbl rho 2) rho
        let inFp4 := d.eq (d.frobeniusViaPow tbl rho 4) rho
        let inFp6 := d.eq (d.frobeniusViaPow tbl rho 6) rho
        let okL := !d.isZero l && !d.isZero affLine && (inFp4 || inFp6)
        let okP := pt == expPt
        some { model := model, spec := [if okL && okP then got else if okP then "<line value = subfield factor x affine line>" else "<line> " ++ expPt],
               tags := ["lfn." ++ v, "lfn.factor." ++ (if inFp2 then "fp2" else if inFp4 then "fp4" else if inFp6 then "fp6" else "none"),
                        if mtype then "twist.M" else "twist.D", if optbTwo then "lfn.optb2-classC" else "lfn.model"] : Verdict }
      | none => some { model := model, spec := ["<line> " ++ expPt], tags := ["lfn.parse"] }
    | _ => some { model := model, spec := ["<line> " ++ expPt], tags := ["lfn.parse"] }
  match op, args with
  | "lfn", ["dbl", ts, ps] => do
    let t ← C11.parsePoint d2 ts
    let tr ← C11.parseRep d2 ts
    let p ← C03.parsePoint ps
    let (xp, yp) ← p
    let tt := untwist d pe.u t
    -- the loop passes P precomputed as (3·x_P, −y_P)
    let m := Relic.Gen.PpLine.pp_dbl_k12_projc_lazyr o2 c2.b tr.x tr.y tr.z (emb (3 * xp)) (emb (d2.p - yp % d2.p))
    judge "dbl" (fmtOut2 m) (pe.e12.line tt tt (embed1 d p)).1 (C11.fmtPoint d2 (Relic.Spec.CurveX.add c2 t t))
  | "lfn", ["add", ts, qs, ps] => do
    let t ← C11.parsePoint d2 ts
    let tr ← C11.parseRep d2 ts
    let q ← C11.parsePoint d2 qs
    let (xq, yq) ← q
    let p ← C03.parsePoint ps
    let (xp, yp) ← p
    let m := Relic.Gen.PpLine.pp_add_k12_projc_lazyr o2 tr.x tr.y tr.z xq yq (emb xp) (emb yp)
    judge "add" (fmtOut2 m) (pe.e12.line (untwist d pe.u t) (untwist d pe.u q) (embed1 d p)).1 (C11.fmtPoint d2 (Relic.Spec.CurveX.add c2 t q))
  | "lfn", ["dbll", ts, qs] => do
    let t ← C03.parsePoint ts
    let tr ← C03.parseRep c1.p ts
    let q ← C11.parsePoint d2 qs
    let (xq, yq) ← q
    let tt := embed1 d t
    -- the loop passes −Q
    let m := Relic.Gen.PpLine.pp_dbl_lit_k12 o2 (emb c1.b) (emb tr.x) (emb tr.y) (emb tr.z) xq (d2.neg yq)
    judge "dbll" (fmtOut1 m) (pe.e12.line tt tt (untwist d pe.u q)).1 (C03.fmtPoint (Relic.Spec.Curve.add c1 t t))
  | "lfn", ["addl", ts, ps, qs] => do
    let t ← C03.parsePoint ts
    let tr ← C03.parseRep c1.p ts
    let p ← C03.parsePoint ps
    let (xp, yp) ← p
    let q ← C11.parsePoint d2 qs
    let (xq, yq) ← q
    let m := Relic.Gen.PpLine.pp_add_lit_k12 o2 (emb tr.x) (emb tr.y) (emb tr.z) (emb xp) (emb yp) xq yq
    judge "addl" (fmtOut1 m) (pe.e12.line (embed1 d t) (embed1 d p) (untwist d pe.u q)).1 (C03.fmtPoint (Relic.Spec.Curve.add c1 t p))
  | _, _ => none

end Driver.C04
