/- C04 handlers for the final exponentiation (class A part of the property).
   `fexp`  : pp_exp_k12 on an arbitrary element of Fp12.  model = the chain GENERATED from the C text (Gen/PpExp.lean: dispatcher,
             chain, fp12_conv_cyc) + the hand model of fp12_exp_cyc_sps, executed with the driver's own Fp12 arithmetic (generic
             tower specification); spec = f^(c·(p^12−1)/r) by plain square-and-multiply, c the constant of the theorem
             (Props/C04B.lean: BN 2x(6x²+3x+1), SM9 1, BLS12 3).  The hypotheses of the theorems are evaluated on the reported
             parameters (p = p(x), r = r(x), sparse form denotes |x|, gcd(c, r) = 1, r | p⁴ − p² + 1).
   `fcyc`  : fp12_conv_cyc; model = generated definition, spec = f^((p^6−1)(p^2+1)).
   `expsps`: fp12_exp_cyc_sps on a cyclotomic element with an arbitrary sparse form; model = Model/PpExp.expCycSps,
             spec = a^(±value of the form). -/
import Driver.C12
import RelicVerif.Gen.PpExp

namespace Driver.C04
open Driver Relic.Spec.Tower Relic.Model.PpExp

structure Env where
  base : C12.Env
  x : Int
  sps : List Int
  fam : String
  par : String
  tbl : Thunk FrobTable

def parseIntDec (s : String) : Option Int := s.toInt?

def mkEnv (e : C12.Env) : Option Env := do
  let x ← parseHexInt (← e.kv.lookup "x")
  let spsS ← e.kv.lookup "sps"
  let sps ← if spsS == "." then some [] else (spsS.splitOn ",").mapM parseIntDec
  some { base := e, x := x, sps := sps, fam := (e.kv.lookup "famname").getD "?", par := (e.kv.lookup "parname").getD "?",
         tbl := Thunk.mk fun _ => e.d12.frobTable }

/-- the driver's own arithmetic as the operation record of the generated chains -/
def descOps (d : Desc) (tbl : Thunk FrobTable) : CycOps (List Nat) where
  one := d.one
  mul := d.mul
  sqrCyc := d.sqr
  sqrPck := d.sqr
  back := fun a => a
  invCyc := d.conj
  inv := fun a => (d.inv? a).getD d.zero
  frb := fun a i => d.frobeniusViaPow tbl.get a i

/-- the family polynomials and the constant c of the theorem: (p(x) as 3·p for BLS12 to stay in ℤ, r(x), c) -/
def family (e : Env) : Option (Int × Int × Int × Int) :=
  let x := e.x
  if e.fam == "EP_BN" then
    some (1, 36 * x ^ 4 + 36 * x ^ 3 + 24 * x ^ 2 + 6 * x + 1, 36 * x ^ 4 + 36 * x ^ 3 + 18 * x ^ 2 + 6 * x + 1,
          if e.par == "SM9_P256" then 1 else 2 * x * (6 * x ^ 2 + 3 * x + 1))
  else if e.fam == "EP_B12" then
    some (3, (x - 1) ^ 2 * (x ^ 4 - x ^ 2 + 1) + 3 * x, x ^ 4 - x ^ 2 + 1, 3)
  else none

/-- the hypotheses of the chain theorems on the reported parameters; empty = all hold -/
def hypotheses (e : Env) : List String :=
  let p : Int := e.base.d12.p
  let r : Int := e.base.n
  match family e with
  | none => ["family " ++ e.fam ++ " has no chain theorem"]
  | some (k, px, rx, c) =>
    (if k * p == px then [] else ["p is not the family polynomial at x"]) ++
    (if r == rx then [] else ["r is not the family polynomial at x"]) ++
    (if (p ^ 4 - p ^ 2 + 1) % r == 0 then [] else ["r does not divide p^4 - p^2 + 1"]) ++
    (if spsVal e.sps == e.x.natAbs then [] else ["the sparse form does not denote |x|"]) ++
    (if Nat.gcd c.natAbs r.natAbs == 1 then [] else ["gcd(c, r) != 1"]) ++
    (if e.par == "SM9_P256" && e.x < 0 then ["the SM9 chain needs x > 0"] else []) ++
    (if e.fam == "EP_B12" && e.sps.head? != some 0 && !(e.sps.all fun bi => 1 ≤ bi || bi ≤ -2) then ["BLS12 chain: an entry 0 / -1 in the sparse form of an even parameter"] else [])

/-- c·(p^12 − 1)/r reduced into [0, p^12 − 1) -/
def finalExponent (e : Env) : Option Nat :=
  let p : Int := e.base.d12.p
  let r : Int := e.base.n
  (family e).map fun (_, _, _, c) => ((c * ((p ^ 12 - 1) / r)) % (p ^ 12 - 1)).toNat

def branchTags (e : Env) : List String :=
  ["chain." ++ (if e.fam == "EP_BN" then (if e.par == "SM9_P256" then "sm9" else "bn") else if e.fam == "EP_B12" then "b12" else "none"),
   if e.x < 0 then "x<0" else "x>0", if e.sps.head? == some 0 then "b0=0" else "b0!=0"]

def handle (e : Env) (op : String) (args : List String) (got : String) : Option Verdict :=
  let d := e.base.d12
  let o := descOps d e.tbl
  match op, args with
  | "fexp", [v, a] => do
    let a ← d.parse? a
    if d.isZero a then
      -- 0 is not in the domain (no inverse): the library reports the failed inversion; the value 0^k = 0 is admitted too
      some { model := got, spec := ["err", d.fmt d.zero], tags := ["fexp.zero"] }
    else
    let hyp := hypotheses e
    if !hyp.isEmpty then some { model := got, spec := ["<" ++ String.intercalate "; " hyp ++ ">"], tags := ["fexp.hyp"] } else
    let model := match Relic.Gen.PpExp.pp_exp_k12 o e.fam e.par (e.x < 0) e.sps a with
      | some c => d.fmt c
      | none => "<no case of pp_exp_k12 writes the result>"
    let spec := match finalExponent e with
      | some k => d.fmt (d.pow a k)
      | none => "<no exponent>"
    let cls := if d.isOne a then "one" else if d.isOne (d.pow a (e.base.n)) then "order-r"
      else if d.isOne (d.mul (d.frobeniusViaPow e.tbl.get a 6) a) then "cyclotomic-or-unitary" else "generic"
    some { model := model, spec := [spec], tags := ["fexp." ++ v, "fexp.in." ++ cls] ++ branchTags e }
  | "fcyc", [v, a] => do
    let a ← d.parse? a
    if d.isZero a then some { model := got, spec := ["err", d.fmt d.zero], tags := ["fcyc.zero"] } else
    let p := d.p
    some { model := d.fmt (Relic.Gen.PpExp.fp12_conv_cyc o a), spec := [d.fmt (d.pow a ((p ^ 6 - 1) * (p ^ 2 + 1)))], tags := ["fcyc." ++ v] }
  | "expsps", [v, a, sg, bs] => do
    let a ← d.parse? a
    let b ← if bs == "." then some [] else (bs.splitOn ",").mapM parseIntDec
    let neg := sg == "neg"
    -- the contract is for cyclotomic elements (a^(p^6+1) = 1 and a^(p^4−p^2+1) = 1: compressed squarings); outside: compared only
    let cyc := d.isOne (d.mul (d.frobeniusViaPow e.tbl.get a 6) a) &&
      d.isOne (d.mul (d.mul (d.frobeniusViaPow e.tbl.get a 4) a) (d.conj (d.frobeniusViaPow e.tbl.get a 2)))
    if !cyc then some { model := got, spec := [got], tags := ["expsps.outside"] } else
    let k := spsVal b
    let k := if neg then -k else k
    let specv := if k < 0 then d.pow (d.conj a) k.natAbs else d.pow a k.natAbs
    -- strictly ascending positions are what fp_prime_set_pairf produces; other lists exercise the `j never goes back` reading
    let asc := (b.zip (b.drop 1)).all fun (u, w) => u.natAbs < w.natAbs
    some { model := d.fmt (expCycSps o a b neg), spec := [d.fmt specv],
           tags := ["expsps." ++ v, "expsps." ++ sg, if b.isEmpty then "len0" else if b.head? == some 0 then "b0=0" else "b0!=0",
                    if asc then "ascending" else "not-ascending", if b.any (· < 0) then "has-neg" else "all-pos"] }
  | _, _ => none

end Driver.C04
