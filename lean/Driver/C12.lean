/- C12 / C04 handlers: the three pairing groups and the pairings.  The context (`pc_param` line) is what the running library
   reports; G1 is judged with Spec/Curve.lean, G2 with Spec/CurveX.lean over Fp2, GT with the generic tower spec for
   Fp12 = Fp2[v]/(v³ − ξ)[w]/(w² − v).  No pairing is re-implemented here: the pairing values printed by the library are
   judged by the algebraic relations the property states, with all group arithmetic done by the specification. -/
import Driver.C03
import Driver.C11
import RelicVerif.Spec.CurveX

namespace Driver.C12
open Driver Relic.Spec.Tower Relic.Spec.CurveX

structure Env where
  c1 : Relic.Spec.Curve.Curve
  g1 : Relic.Spec.Curve.Point
  e2 : C11.Env
  d12 : Desc
  n : Nat
  gt : List Nat
  kv : List (String × String)

def fp12Desc (p : Nat) (qnr : Int) (xi : List Nat) : Desc :=
  { p := p, levels := [{ deg := 2, nr := [0, 0, 1 % p, 0, 0, 0] }, { deg := 3, nr := xi }, { deg := 2, nr := [(qnr % (p : Int)).toNat] }] }

def parseEnv (got : String) : Option Env := do
  let kv := (got.splitOn " ").filterMap fun t => match t.splitOn "=" with
    | [k, v] => some (k, v)
    | _ => none
  let p ← parseHexNat (← kv.lookup "p")
  let qnr ← (← kv.lookup "qnr").toInt?
  let d2 := C11.fp2Desc p qnr
  let el2 := fun (s : String) => match s.splitOn "," with
    | [a, b] => C11.parseEl d2 a b
    | _ => none
  let xi ← el2 (← kv.lookup "xi")
  let n ← parseHexNat (← kv.lookup "n")
  let h2 ← parseHexNat (← kv.lookup "h2")
  let a1 ← parseHexNat (← kv.lookup "a1")
  let b1 ← parseHexNat (← kv.lookup "b1")
  let g1 ← match (← kv.lookup "g1").splitOn "," with
    | [x, y] => do some (some ((← parseHexNat x), (← parseHexNat y)))
    | _ => none
  let a2 ← el2 (← kv.lookup "a2")
  let b2 ← el2 (← kv.lookup "b2")
  let g2 ← match (← kv.lookup "g2").splitOn "," with
    | [x0, x1, y0, y1] => do some (some ((← C11.parseEl d2 x0 x1), (← C11.parseEl d2 y0 y1)))
    | _ => none
  let d12 := fp12Desc p qnr xi
  let gt ← d12.parse? (← kv.lookup "gt")
  some { c1 := { p := p, a := a1, b := b1 }, g1 := g1,
         e2 := { c := { d := d2, a := a2, b := b2 }, g := g2, n := n, h := h2, n1 := n, kv := kv },
         d12 := d12, n := n, gt := gt, kv := kv }

def gtValid (e : Env) (a : List Nat) : Bool :=
  !e.d12.isOne a && !e.d12.isZero a && e.d12.isOne (e.d12.pow a e.n)

def g1Valid (e : Env) (p : Relic.Spec.Curve.Point) : Bool :=
  p != none && Relic.Spec.Curve.onCurve e.c1 p && Relic.Spec.Curve.mulNat e.c1 p e.n == none

def g2Valid (e : Env) (q : PointX) : Bool :=
  q != none && onCurve e.e2.c q && mulNat e.e2.c q e.n == none

/-- the reported setting: the tower is a field tower as far as the pairing needs (ξ is neither a square nor a cube in Fp2 is
    C10's check; here: the generators are valid and the target generator is a valid, non-trivial element) -/
def checkParam (e : Env) : List String :=
  (if g1Valid e e.g1 then [] else ["G1 generator is not a valid G1 element"]) ++
  (if g2Valid e e.e2.g then [] else ["G2 generator is not a valid G2 element"]) ++
  (if gtValid e e.gt then [] else ["e(G1, G2) is not a non-trivial element of order r"]) ++
  C11.checkParam e.e2

def fmtGt (e : Env) (a : List Nat) : String := e.d12.fmt a

def handle (e : Env) (w : Nat) (op : String) (args : List String) (got : String) : Option Verdict :=
  let pI := fun (s : String) => (parseBn w s).map (Relic.Model.Bn.toInt (2 ^ w))
  let d12 := e.d12
  let c1 := e.c1
  let c2 := e.e2.c
  let d2 := c2.d
  let exp := fun (a : List Nat) (k : Int) => d12.pow a (k % (e.n : Int)).toNat   -- for elements of order dividing r
  match op, args with
  | "pcv", ["g1", p] => do
    let p ← C03.parsePoint p
    some { model := got, spec := ["r=" ++ (if g1Valid e p then "1" else "0")], tags := ["g1v." ++ (if g1Valid e p then "in" else "out")] }
  | "pcv", ["g2", q] => do
    let q ← C11.parsePoint d2 q
    some { model := got, spec := ["r=" ++ (if g2Valid e q then "1" else "0")],
           tags := ["g2v." ++ (if g2Valid e q then "in" else if onCurve c2 q then "twist-outside" else "off")] }
  | "pcv", ["gt", a] => do
    let a ← d12.parse? a
    some { model := got, spec := ["r=" ++ (if gtValid e a then "1" else "0")], tags := ["gtv." ++ (if gtValid e a then "in" else "out")] }
  | "gtel", ["gen", j] => do
    let j ← pI j
    some { model := got, spec := [fmtGt e (exp e.gt j)], tags := ["gtel.gen"] }
  | "gtel", ["cyc", a] => do
    -- the easy part of the final exponentiation: a ↦ a^((p^6 − 1)(p^2 + 1)); judged by its definition
    let a ← d12.parse? a
    let p := d12.p
    if d12.isZero a then some { model := got, spec := [got], tags := ["gtel.cyc0"] } else
    let t := d12.pow a (p ^ 6 - 1)
    some { model := got, spec := [fmtGt e (d12.mul (d12.pow t (p ^ 2)) t)], tags := ["gtel.cyc"] }
  | "g1m", [v0, p, k] => do
    let v := if v0.endsWith "!" then (v0.dropEnd 1).toString else v0
    let p0 ← C03.parsePoint p
    let k ← pI k
    let p' := if v == "gen" then e.g1 else p0
    let k' := if v == "dig" then ((k.natAbs % 2 ^ w : Nat) : Int) else k
    some { model := got, spec := [C03.fmtPoint (Relic.Spec.Curve.mul c1 p' k')], tags := ["g1m." ++ v0] }
  | "g2m", [v0, q, k] => do
    let v := if v0.endsWith "!" then (v0.dropEnd 1).toString else v0
    let q0 ← C11.parsePoint d2 q
    let k ← pI k
    let q' := if v == "gen" then e.e2.g else q0
    let k' := if v == "dig" then ((k.natAbs % 2 ^ w : Nat) : Int) else k
    some { model := got, spec := [C11.fmtPoint d2 (mul c2 q' k')], tags := ["g2m." ++ v0] }
  | "g1s", [v, p, k, q, m] => do
    let p0 ← C03.parsePoint p
    let q' ← C03.parsePoint q
    let k ← pI k
    let m ← pI m
    let p' := if v == "gen" then e.g1 else p0
    some { model := got, spec := [C03.fmtPoint (Relic.Spec.Curve.add c1 (Relic.Spec.Curve.mul c1 p' k) (Relic.Spec.Curve.mul c1 q' m))], tags := ["g1s." ++ v] }
  | "g2s", [v, p, k, q, m] => do
    let p0 ← C11.parsePoint d2 p
    let q' ← C11.parsePoint d2 q
    let k ← pI k
    let m ← pI m
    let p' := if v == "gen" then e.e2.g else p0
    some { model := got, spec := [C11.fmtPoint d2 (add c2 (mul c2 p' k) (mul c2 q' m))], tags := ["g2s." ++ v] }
  | "gte", v0 :: a :: k :: rest => do
    let v := if v0.endsWith "!" then (v0.dropEnd 1).toString else v0
    let a0 ← d12.parse? a
    let k ← pI k
    let a' := if v == "gen" then e.gt else a0
    -- exponentiation is claimed for elements of the target group; outside it the routines that use the cyclotomic structure
    -- have no contract (the generator presents valid elements only, plus the identity)
    if !(gtValid e a' || d12.isOne a') then some { model := got, spec := [got], tags := ["gte.outside"] } else
    let k' := if v == "dig" then ((k.natAbs % 2 ^ w : Nat) : Int) else k
    match v, rest with
    | "sim", [c, dd] => do
      let c ← d12.parse? c
      let dd ← pI dd
      if !(gtValid e c || d12.isOne c) then some { model := got, spec := [got], tags := ["gte.outside"] } else
      some { model := got, spec := [fmtGt e (d12.mul (exp a' k') (exp c dd))], tags := ["gte.sim"] }
    | _, _ => some { model := got, spec := [fmtGt e (exp a' k')], tags := ["gte." ++ v0] }
  | "pp", [v, p, q] => do
    let p ← C03.parsePoint p
    let q ← C11.parsePoint d2 q
    let r ← d12.parse? got
    let trivial := p == none || q == none
    let ok := if trivial then d12.isOne r else gtValid e r
    some { model := got, spec := [if ok then got else if trivial then "1 (identity in a slot)" else "<non-trivial element of order r>"],
           tags := ["pp." ++ v, if trivial then "identity-slot" else "nondegenerate"] }
  | "ppb", [v, p, q, ap, bq, a, b] => do
    let p ← C03.parsePoint p
    let q ← C11.parsePoint d2 q
    let ap ← C03.parsePoint ap
    let bq ← C11.parsePoint d2 bq
    let a ← pI a
    let b ← pI b
    match got.splitOn " " with
    | [s1, s2] => do
      let e1 ← d12.parse? s1
      let e2 ← d12.parse? s2
      -- the operands really are the stated multiples (independent of the library)
      let opsOk := Relic.Spec.Curve.mul c1 p a == ap && canonPt c2 (mul c2 q b) == canonPt c2 bq
      let trivial := p == none || q == none
      let ok := opsOk && d12.eq e2 (exp e1 (a * b)) && (if trivial then d12.isOne e1 else gtValid e e1)
      some { model := got, spec := [if ok then got else if opsOk then "e(aP,bQ) = e(P,Q)^(ab), e(P,Q) of order r" else "<generator error: operands are not the stated multiples>"],
             tags := ["ppb." ++ v, if (a * b) % (e.n : Int) == 0 then "ab=0" else "ab!=0"] }
    | _ => some { model := got, spec := ["two target-group elements"], tags := ["ppb.parse"] }
  | "pps", v :: n :: _ => do
    let n ← n.toNat?
    let vals ← (got.splitOn " ").mapM d12.parse?
    match vals with
    | m :: es =>
      let prod := es.foldl (fun acc x => d12.mul acc x) d12.one
      let ok := es.length == n && d12.eq m prod
      some { model := got, spec := [if ok then got else "multi-pairing = product of the individual pairings"], tags := ["pps." ++ v, "n" ++ toString n] }
    | [] => some { model := got, spec := ["values"], tags := ["pps.parse"] }
  | _, _ => none

end Driver.C12
