/- Line-protocol driver. Input lines: `<op> <args…> => <implementation output>`; first line `cfg …`.
   Output per line: `ok [tags]` or `FAIL [M][S] model=<…> spec=<…> got=<…>`. -/
import Driver.C01
import Driver.C02
import Driver.C03
import Driver.C18
import Driver.C15
import Driver.C07
import Driver.C09
import Driver.C14
import Driver.C19
import Driver.C20
import Driver.C11
import Driver.C12
import Driver.C04
import Driver.C12V
import Driver.C06
import Driver.C13
import Driver.C17

import Driver.C10
import Driver.C16
import Driver.C05
import Driver.C08

open Driver Relic.Model

structure Conf where
  w : Nat := 64
  size : Nat := 34
  digs : Nat := 16
  extra : List (String × String) := []
  fp : Option C02.Env := none
  ep : Option C03.Env := none
  ep2 : Option C11.Env := none
  pc : Option C12.Env := none
  pc4 : Option C04.Env := none
  pc4m : Option C04.PEnv := none
  cp : C06.State := {}
  map : Option C13.Env := none
  ebmap : Option C13.Eb.Env := none
  edmap : Option C13.Ed.Env := none
  ep2map : Option C13.Ext.Env := none
  ed : Option C17.Env := none
  fpx : Option C10.Env := none
  fb : Option C16.FEnv := none
  eb : Option C16.EEnv := none
  ebCache : C16.Cache := []

def parseCfg (toks : List String) : Conf :=
  toks.foldl (fun c t =>
    match t.splitOn "=" with
    | [k, v] =>
      match k, v.toNat? with
      | "w", some n => { c with w := n }
      | "size", some n => { c with size := n }
      | "digs", some n => { c with digs := n }
      | _, _ => { c with extra := (k, v) :: c.extra }
    | _ => c) {}

def dispatch (c : Conf) (op : String) (args : List String) (got : String) : Option Verdict :=
  let e01 : C01.Env := { cfg := { w := c.w, cap := c.size }, digs := c.digs }
  let latch := (c.extra.lookup "latch").getD "1" == "1"
  (C01.handle e01 op args) <|> (match c.fp with
    | some e => C02.handle e op args got
    | none => none) <|> (match c.ep with
    | some e => C03.handle e c.w op args got
    | none => none) <|> (C07.handle e01.cfg op args) <|> (C09.handle c.w c.size c.digs op args got) <|> (C14.handle op args) <|> (C15.handle c.w c.size op args got) <|> (C19.handle latch op args) <|> (C20.handle c.ep c.w op args got) <|> (C18.handle c.ep c.w op args got) <|> (C18.handleSel c.w op args got) <|> (C08.handle op args got) <|> (match c.ep2 with
    | some e => C11.handle e c.w op args got
    | none => none) <|> (match c.pc4 with
    | some e => C12V.handle e op args got
    | none => none) <|> (match c.pc4 with
    | some e => C04.handle e op args got
    | none => none) <|> (match c.pc4m with
    | some e => (C04.handleMap e op args got) <|> (C04.handleLine e op args got)
    | none => none) <|> (match c.pc with
    | some e => C12V.handleMul e c.ep c.ep2 c.w op args got
    | none => none) <|> (match c.pc with
    | some e => C12.handle e c.w op args got
    | none => none) <|> (C06.handle c.cp c.ep op args got) <|> (match c.map with
    | some e => C13.handle e c.size c.w op args got
    | none => none) <|> (match c.ebmap with
    | some e => C13.Eb.handle e op args
    | none => none) <|> (match c.edmap with
    | some e => C13.Ed.handle e op args got
    | none => none) <|> (match c.ep2map with
    | some e => C13.Ext.handle e op args got
    | none => none) <|> (match c.ed with
    | some e => C17.handle e c.w op args got
    | none => none) <|> (match c.fpx with
    | some e => C10.handle e op args got
    | none => none) <|> (C16.handle c.fb c.eb c.ebCache c.w op args got) <|> (C05.handle c.ep c.w op args got)

def processLine (c : Conf) (line : String) : String :=
  match line.splitOn " => " with
  | [lhs, got] =>
    let toks := (lhs.splitOn " ").filter (· ≠ "")
    match toks with
    | [] => "skip"
    | op :: args =>
      if op.startsWith "#" then "skip" else
      match dispatch c op args got with
      | none => "UNMODELLED " ++ op
      | some v =>
        let mOk := v.model == got
        let sOk := v.spec.contains got
        let tags := String.intercalate "," v.tags
        if mOk && sOk then "ok " ++ tags
        else
          "FAIL " ++ (if mOk then "" else "M") ++ (if sOk then "" else "S") ++
            " model=[" ++ v.model ++ "] spec=[" ++ String.intercalate "|" v.spec ++ "] got=[" ++ got ++ "] " ++ tags
  | _ => "skip"

partial def loop (h : IO.FS.Stream) (out : IO.FS.Stream) (c : Conf) : IO Unit := do
  let line ← h.getLine
  if line.isEmpty then return ()
  let line := line.trimAscii.toString
  if line.startsWith "cfg " then
    let rhs := match line.splitOn " => " with
      | [_, r] => r
      | _ => line
    let c' := parseCfg (rhs.splitOn " ")
    out.putStrLn "cfg"
    loop h out c'
  else if line.startsWith "ep_param " || line.startsWith "sigpc_param " then
    match line.splitOn " => " with
    | [_, got] =>
      match C03.parseEnv got with
      | some e =>
        let bad := C03.checkParam e ++ C18.checkAgainstTable e ++ C18.checkEndom e
        out.putStrLn (if bad.isEmpty then "ok ep_param" else "FAIL S model=[] spec=[" ++ String.intercalate ";" bad ++ "] got=[" ++ got ++ "]")
        -- the field context follows the curve selection
        let fpEnv : Option C02.Env := C02.parseEnv c.w ("digs=" ++ toString ((Nat.log2 e.c.p) / c.w + 1) ++ " p=" ++ natToHex e.c.p ++ " u=0 conv=0 qnr=0 cnr=0")
        loop h out { c with ep := some e, fp := fpEnv }
      | none =>
        out.putStrLn (if got == "err" then "ok ep_param-rejected" else "FAIL S model=[] spec=[parsable ep_param] got=[" ++ got ++ "]")
        loop h out { c with ep := none }
    | _ => out.putStrLn "skip"; loop h out c
  else if line.startsWith "pc_param " then
    match line.splitOn " => " with
    | [_, got] =>
      match C12.parseEnv got with
      | some e =>
        let bad := C12.checkParam e ++ (match C04.mkEnv e with | some e4 => C12V.hypotheses e4 | none => [])
        out.putStrLn (if bad.isEmpty then "ok pc_param" else "FAIL S model=[] spec=[" ++ String.intercalate ";" bad ++ "] got=[" ++ got ++ "]")
        loop h out { c with pc := some e, pc4 := C04.mkEnv e, pc4m := (C04.mkEnv e).bind C04.mkPEnv }
      | none =>
        out.putStrLn (if got == "err" then "ok pc_param-rejected" else "FAIL S model=[] spec=[parsable pc_param] got=[" ++ got ++ "]")
        loop h out { c with pc := none, pc4 := none, pc4m := none }
    | _ => out.putStrLn "skip"; loop h out c
  else if line.startsWith "ep2_param " then
    match line.splitOn " => " with
    | [_, got] =>
      match C11.parseEnv got with
      | some e =>
        let bad := C11.checkParam e ++ C18.checkTwistAgainstTable e
        out.putStrLn (if bad.isEmpty then "ok ep2_param" else "FAIL S model=[] spec=[" ++ String.intercalate ";" bad ++ "] got=[" ++ got ++ "]")
        loop h out { c with ep2 := some e }
      | none =>
        out.putStrLn (if got == "err" then "ok ep2_param-rejected" else "FAIL S model=[] spec=[parsable ep2_param] got=[" ++ got ++ "]")
        loop h out { c with ep2 := none }
    | _ => out.putStrLn "skip"; loop h out c
  else if line.startsWith "ep_map_param " then
    -- C13: curve selection + the map constants the library derived; every constant is checked against its defining property
    match line.splitOn " => " with
    | [_, got] =>
      match C13.parseEnv got with
      | some e =>
        let bad := C03.checkParam e.ep ++ C13.checkParam e
        out.putStrLn (if bad.isEmpty then "ok ep_map_param" else "FAIL S model=[] spec=[" ++ String.intercalate ";" bad ++ "] got=[" ++ got ++ "]")
        loop h out { c with ep := some e.ep, map := some e }
      | none =>
        out.putStrLn (if got == "err" then "ok ep_map_param-rejected" else "FAIL S model=[] spec=[parsable ep_map_param] got=[" ++ got ++ "]")
        loop h out { c with ep := none, map := none }
    | _ => out.putStrLn "skip"; loop h out c
  else if line.startsWith "ep2_map_param " then
    match line.splitOn " => " with
    | [_, got] =>
      match C13.Ext.parseEnv got with
      | some e =>
        let bad := C13.Ext.checkParam e
        out.putStrLn (if bad.isEmpty then "ok ep2_map_param" else "FAIL S model=[] spec=[" ++ String.intercalate ";" bad ++ "] got=[" ++ got ++ "]")
        loop h out { c with ep2map := some e }
      | none =>
        out.putStrLn (if got == "err" then "ok ep2_map_param-rejected" else "FAIL S model=[] spec=[parsable ep2_map_param] got=[" ++ got ++ "]")
        loop h out { c with ep2map := none }
    | _ => out.putStrLn "skip"; loop h out c
  else if line.startsWith "ed_map_param " then
    match line.splitOn " => " with
    | [_, got] =>
      match C13.Ed.parseEnv got with
      | some e =>
        let bad := C13.Ed.checkParam e
        out.putStrLn (if bad.isEmpty then "ok ed_map_param" else "FAIL S model=[] spec=[" ++ String.intercalate ";" bad ++ "] got=[" ++ got ++ "]")
        loop h out { c with edmap := some e }
      | none =>
        out.putStrLn (if got == "err" then "ok ed_map_param-rejected" else "FAIL S model=[] spec=[parsable ed_map_param] got=[" ++ got ++ "]")
        loop h out { c with edmap := none }
    | _ => out.putStrLn "skip"; loop h out c
  else if line.startsWith "eb_map_param " then
    match line.splitOn " => " with
    | [_, got] =>
      match C13.Eb.parseEnv got with
      | some e =>
        let bad := C13.Eb.checkParam e
        out.putStrLn (if bad.isEmpty then "ok eb_map_param" else "FAIL S model=[] spec=[" ++ String.intercalate ";" bad ++ "] got=[" ++ got ++ "]")
        loop h out { c with ebmap := some e }
      | none =>
        out.putStrLn (if got == "err" then "ok eb_map_param-rejected" else "FAIL S model=[] spec=[parsable eb_map_param] got=[" ++ got ++ "]")
        loop h out { c with ebmap := none }
    | _ => out.putStrLn "skip"; loop h out c
  else if line.startsWith "ed_param " then
    match line.splitOn " => " with
    | [_, got] =>
      match C17.parseEnv c.w got with
      | some e =>
        let bad := C17.checkParam e ++
          C18.checkEdAgainstTable ((e.kv.lookup "id").bind String.toNat? |>.getD 0) e.c.p e.c.a e.c.d e.g.1 e.g.2 e.r e.h
        out.putStrLn (if bad.isEmpty then "ok ed_param" else "FAIL S model=[] spec=[" ++ String.intercalate ";" bad ++ "] got=[" ++ got ++ "]")
        loop h out { c with ed := some e }
      | none =>
        out.putStrLn (if got == "err" then "ok ed_param-rejected" else "FAIL S model=[] spec=[parsable ed_param] got=[" ++ got ++ "]")
        loop h out { c with ed := none }
    | _ => out.putStrLn "skip"; loop h out c
  else if line.startsWith "fpx_param " then
    -- the running library reports the tower constants; their defining properties are checked here
    match line.splitOn " => " with
    | [_, got] =>
      match C10.parseEnv got with
      | some e =>
        let bad := C10.checkParam e
        out.putStrLn (if bad.isEmpty then "ok fpx_param" else "FAIL S model=[] spec=[" ++ String.intercalate ";" bad ++ "] got=[" ++ got ++ "]")
        loop h out { c with fpx := some e }
      | none =>
        out.putStrLn (if got == "err" then "ok fpx_param-rejected" else "FAIL S model=[] spec=[parsable fpx_param] got=[" ++ got ++ "]")
        loop h out { c with fpx := none }
    | _ => out.putStrLn "skip"; loop h out c
  else if line.startsWith "fb_param " then
    -- binary field context: the irreducible polynomial as the running library reports it
    match line.splitOn " => " with
    | [_, got] =>
      match C16.parseFEnv got with
      | some e =>
        let bad := C16.checkFParam e
        out.putStrLn (if bad.isEmpty then "ok fb_param" else "FAIL S model=[] spec=[" ++ String.intercalate ";" bad ++ "] got=[" ++ got ++ "]")
        loop h out { c with fb := some e, eb := none }
      | none =>
        out.putStrLn (if got == "err" then "ok fb_param-rejected" else "FAIL S model=[] spec=[parsable fb_param] got=[" ++ got ++ "]")
        loop h out { c with fb := none, eb := none }
    | _ => out.putStrLn "skip"; loop h out c
  else if line.startsWith "eb_param " then
    match line.splitOn " => " with
    | [_, got] =>
      match C16.parseEEnv got with
      | some e =>
        let bad := C16.checkEParam e ++ C16.checkFParam { F := e.c.F, K := e.fc.K, kv := e.kv }
        out.putStrLn (if bad.isEmpty then "ok eb_param" else "FAIL S model=[] spec=[" ++ String.intercalate ";" bad ++ "] got=[" ++ got ++ "]")
        loop h out { c with eb := some e, ebCache := [], fb := some { F := e.c.F, K := e.fc.K, kv := e.kv } }
      | none =>
        out.putStrLn (if got == "err" then "ok eb_param-rejected" else "FAIL S model=[] spec=[parsable eb_param] got=[" ++ got ++ "]")
        loop h out { c with eb := none }
    | _ => out.putStrLn "skip"; loop h out c
  else if line.startsWith "ebm " || line.startsWith "ebs " then
    -- scalar multiplications of C16 share the doubling chains of their base points
    let toks := (((line.splitOn " => ").headD "").splitOn " ").filter (· ≠ "")
    let c := { c with ebCache := C16.updCache c.eb c.ebCache (toks.headD "") (toks.drop 1) }
    out.putStrLn (processLine c line)
    loop h out c
  else if line.startsWith "fp_param " then
    -- the running library reports the active field; the derived constants are checked here
    match line.splitOn " => " with
    | [_, got] =>
      match C02.parseEnv c.w got with
      | some e =>
        let bad := C02.checkParam e
        out.putStrLn (if bad.isEmpty then "ok fp_param" else "FAIL S model=[] spec=[" ++ String.intercalate ";" bad ++ "] got=[" ++ got ++ "]")
        loop h out { c with fp := some e }
      | none =>
        out.putStrLn (if got == "err" then "ok fp_param-rejected" else "FAIL S model=[] spec=[parsable fp_param] got=[" ++ got ++ "]")
        loop h out { c with fp := none }
    | _ => out.putStrLn "skip"; loop h out c
  else if C06.isParam ((line.splitOn " ").headD "") then
    -- key-generation context lines of C06: the key material the library reports is checked and kept
    match line.splitOn " => " with
    | [lhs, got] =>
      let toks := (lhs.splitOn " ").filter (· ≠ "")
      let (msg, st) := C06.param c.cp (toks.headD "") (toks.drop 1) got
      out.putStrLn msg
      loop h out { c with cp := st }
    | _ => out.putStrLn "skip"; loop h out c
  else
    out.putStrLn (processLine c line)
    loop h out c

def main : IO Unit := do
  let out ← IO.getStdout
  loop (← IO.getStdin) out {}
