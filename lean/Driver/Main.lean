/- Line-protocol driver. Input lines: `<op> <args…> => <implementation output>`; first line `cfg …`.
   Output per line: `ok [tags]` or `FAIL [M][S] model=<…> spec=<…> got=<…>`. -/
import Driver.C01
import Driver.C02
import Driver.C03
import Driver.C18
import Driver.C15
import Driver.C07
import Driver.C09
import Driver.C14
import Driver.C19
import Driver.C05

open Driver Relic.Model

structure Conf where
  w : Nat := 64
  size : Nat := 34
  digs : Nat := 16
  extra : List (String × String) := []
  fp : Option C02.Env := none
  ep : Option C03.Env := none

def parseCfg (toks : List String) : Conf :=
  toks.foldl (fun c t =>
    match t.splitOn "=" with
    | [k, v] =>
      match k, v.toNat? with
      | "w", some n => { c with w := n }
      | "size", some n => { c with size := n }
      | "digs", some n => { c with digs := n }
      | _, _ => { c with extra := (k, v) :: c.extra }
    | _ => c) {}

def dispatch (c : Conf) (op : String) (args : List String) (got : String) : Option Verdict :=
  let e01 : C01.Env := { cfg := { w := c.w, cap := c.size }, digs := c.digs }
  let latch := (c.extra.lookup "latch").getD "1" == "1"
  (C01.handle e01 op args) <|> (match c.fp with
    | some e => C02.handle e op args got
    | none => none) <|> (match c.ep with
    | some e => C03.handle e c.w op args got
    | none => none) <|> (C07.handle e01.cfg op args) <|> (C09.handle c.w c.size c.digs op args got) <|> (C14.handle op args) <|> (C15.handle c.w c.size op args got) <|> (C19.handle latch op args) <|> (C05.handle c.ep c.w op args got)

def processLine (c : Conf) (line : String) : String :=
  match line.splitOn " => " with
  | [lhs, got] =>
    let toks := (lhs.splitOn " ").filter (· ≠ "")
    match toks with
    | [] => "skip"
    | op :: args =>
      if op.startsWith "#" then "skip" else
      match dispatch c op args got with
      | none => "UNMODELLED " ++ op
      | some v =>
        let mOk := v.model == got
        let sOk := v.spec.contains got
        let tags := String.intercalate "," v.tags
        if mOk && sOk then "ok " ++ tags
        else
          "FAIL " ++ (if mOk then "" else "M") ++ (if sOk then "" else "S") ++
            " model=[" ++ v.model ++ "] spec=[" ++ String.intercalate "|" v.spec ++ "] got=[" ++ got ++ "] " ++ tags
  | _ => "skip"

partial def loop (h : IO.FS.Stream) (out : IO.FS.Stream) (c : Conf) : IO Unit := do
  let line ← h.getLine
  if line.isEmpty then return ()
  let line := line.trimAscii.toString
  if line.startsWith "cfg " then
    let rhs := match line.splitOn " => " with
      | [_, r] => r
      | _ => line
    let c' := parseCfg (rhs.splitOn " ")
    out.putStrLn "cfg"
    loop h out c'
  else if line.startsWith "ep_param " || line.startsWith "pc_param " then
    match line.splitOn " => " with
    | [_, got] =>
      match C03.parseEnv got with
      | some e =>
        let bad := C03.checkParam e ++ C18.checkAgainstTable e
        out.putStrLn (if bad.isEmpty then "ok ep_param" else "FAIL S model=[] spec=[" ++ String.intercalate ";" bad ++ "] got=[" ++ got ++ "]")
        -- the field context follows the curve selection
        let fpEnv : Option C02.Env := C02.parseEnv c.w ("digs=" ++ toString ((Nat.log2 e.c.p) / c.w + 1) ++ " p=" ++ natToHex e.c.p ++ " u=0 conv=0 qnr=0 cnr=0")
        loop h out { c with ep := some e, fp := fpEnv }
      | none =>
        out.putStrLn (if got == "err" then "ok ep_param-rejected" else "FAIL S model=[] spec=[parsable ep_param] got=[" ++ got ++ "]")
        loop h out { c with ep := none }
    | _ => out.putStrLn "skip"; loop h out c
  else if line.startsWith "fp_param " then
    -- the running library reports the active field; the derived constants are checked here
    match line.splitOn " => " with
    | [_, got] =>
      match C02.parseEnv c.w got with
      | some e =>
        let bad := C02.checkParam e
        out.putStrLn (if bad.isEmpty then "ok fp_param" else "FAIL S model=[] spec=[" ++ String.intercalate ";" bad ++ "] got=[" ++ got ++ "]")
        loop h out { c with fp := some e }
      | none =>
        out.putStrLn (if got == "err" then "ok fp_param-rejected" else "FAIL S model=[] spec=[parsable fp_param] got=[" ++ got ++ "]")
        loop h out { c with fp := none }
    | _ => out.putStrLn "skip"; loop h out c
  else
    out.putStrLn (processLine c line)
    loop h out c

def main : IO Unit := do
  let out ← IO.getStdout
  loop (← IO.getStdin) out {}
