/- Line-protocol driver. Input lines: `<op> <args…> => <implementation output>`; first line `cfg …`.
   Output per line: `ok [tags]` or `FAIL [M][S] model=<…> spec=<…> got=<…>`. -/
import Driver.C01
import Driver.C15
import Driver.C07
import Driver.C14
import Driver.C19

open Driver Relic.Model

structure Conf where
  w : Nat := 64
  size : Nat := 34
  digs : Nat := 16
  extra : List (String × String) := []

def parseCfg (toks : List String) : Conf :=
  toks.foldl (fun c t =>
    match t.splitOn "=" with
    | [k, v] =>
      match k, v.toNat? with
      | "w", some n => { c with w := n }
      | "size", some n => { c with size := n }
      | "digs", some n => { c with digs := n }
      | _, _ => { c with extra := (k, v) :: c.extra }
    | _ => c) {}

def dispatch (c : Conf) (op : String) (args : List String) (got : String) : Option Verdict :=
  let e01 : C01.Env := { cfg := { w := c.w, cap := c.size }, digs := c.digs }
  let latch := (c.extra.lookup "latch").getD "1" == "1"
  (C01.handle e01 op args) <|> (C07.handle e01.cfg op args) <|> (C14.handle op args) <|> (C15.handle c.w c.size op args got) <|> (C19.handle latch op args)

def processLine (c : Conf) (line : String) : String :=
  match line.splitOn " => " with
  | [lhs, got] =>
    let toks := (lhs.splitOn " ").filter (· ≠ "")
    match toks with
    | [] => "skip"
    | op :: args =>
      if op.startsWith "#" then "skip" else
      match dispatch c op args got with
      | none => "UNMODELLED " ++ op
      | some v =>
        let mOk := v.model == got
        let sOk := v.spec.contains got
        let tags := String.intercalate "," v.tags
        if mOk && sOk then "ok " ++ tags
        else
          "FAIL " ++ (if mOk then "" else "M") ++ (if sOk then "" else "S") ++
            " model=[" ++ v.model ++ "] spec=[" ++ String.intercalate "|" v.spec ++ "] got=[" ++ got ++ "] " ++ tags
  | _ => "skip"

partial def loop (h : IO.FS.Stream) (out : IO.FS.Stream) (c : Conf) : IO Unit := do
  let line ← h.getLine
  if line.isEmpty then return ()
  let line := line.trimAscii.toString
  if line.startsWith "cfg " then
    let rhs := match line.splitOn " => " with
      | [_, r] => r
      | _ => line
    let c' := parseCfg (rhs.splitOn " ")
    out.putStrLn "cfg"
    loop h out c'
  else
    out.putStrLn (processLine c line)
    loop h out c

def main : IO Unit := do
  let out ← IO.getStdout
  loop (← IO.getStdin) out {}
