/- C17 handlers: the twisted Edwards curve. Specification: the affine law of Spec/Edwards.lean. -/
import Driver.Util
import RelicVerif.Spec.Edwards
import RelicVerif.Spec.Sha256
import RelicVerif.Model.EdConv
import RelicVerif.Gen.EdFormulas
import RelicVerif.Model.EdMul

namespace Driver.C17
open Driver Relic.Spec.Edwards
open Relic.Model.Formula

structure Env where
  c : Curve
  g : Point
  r : Nat
  h : Nat
  sys : String          -- the build's coordinate system (ED_ADD): basic / projc / extnd
  nb : Nat              -- RLC_FP_BYTES
  R : Nat               -- Montgomery radix 2^(w·RLC_FP_DIGS)
  fpbits : Nat
  level : Nat
  kv : List (String × String)

def parseEnv (w : Nat) (got : String) : Option Env := do
  let kv := (got.splitOn " ").filterMap fun t => match t.splitOn "=" with
    | [k, v] => some (k, v)
    | _ => none
  let p ← parseHexNat (← kv.lookup "p")
  let a ← parseHexNat (← kv.lookup "a")
  let d ← parseHexNat (← kv.lookup "d")
  let gx ← parseHexNat (← kv.lookup "gx")
  let gy ← parseHexNat (← kv.lookup "gy")
  let r ← parseHexNat (← kv.lookup "r")
  let h ← parseHexNat (← kv.lookup "h")
  let nb ← (← kv.lookup "nb").toNat?
  let digs ← (← kv.lookup "fpdigs").toNat?
  let fpbits ← (← kv.lookup "fpbits").toNat?
  let level ← (← kv.lookup "level").toNat?
  some { c := { p := p, a := a, d := d }, g := (gx, gy), r := r, h := h, sys := (kv.lookup "sys").getD "", nb := nb,
         R := 2 ^ (w * digs), fpbits := fpbits, level := level, kv := kv }

/-- what the library reports must describe a complete twisted Edwards curve with a generator of prime order r and
    cofactor 8 whose torsion points have the orders the test vectors claim -/
def checkParam (e : Env) : List String :=
  let c := e.c
  (if c.p % 2 == 1 && c.p > 3 then [] else ["p is not an odd prime candidate"]) ++
  (if onCurve c e.g then [] else ["generator not on curve"]) ++
  (if e.g != neutral c then [] else ["generator is the neutral element"]) ++
  (if isSquare c.p c.a && c.a % c.p != 0 then [] else ["a is not a non-zero square: the addition law is not complete"]) ++
  (if !(isSquare c.p c.d) then [] else ["d is a square: the addition law is not complete"]) ++
  (if mulNat c e.g e.r == neutral c then [] else ["r*G != O"]) ++
  (if e.h == 8 then [] else ["cofactor is not 8"]) ++
  (if onCurve c (order2 c) && smallOrder c (order2 c) == 2 then [] else ["(0,-1) is not of order 2"]) ++
  (if (order4 c).length == 2 && (order4 c).all (fun q => onCurve c q && smallOrder c q == 4) then [] else ["order-4 points"]) ++
  (if (order8 c).length == 4 && (order8 c).all (fun q => onCurve c q && smallOrder c q == 8) then [] else ["order-8 points"]) ++
  (if e.kv.lookup "gz1" == some "1" then [] else ["generator stored with z != 1"]) ++
  (if e.sys != "extnd" || e.kv.lookup "gt" == some "1" then [] else ["generator stored with T != X*Y"])

def parsePoint (s : String) : Option Point :=
  match s.splitOn "," with
  | x :: y :: _ => do
    let x ← parseHexNat x
    let y ← parseHexNat y
    some (x, y)
  | _ => none

def fmtPoint : Point → String
  | (x, y) => natToHex x ++ "," ++ natToHex y

/-- the operand as the C function receives it: the affine point in the requested representation, T = XY/Z -/
def parseRep (p : Nat) (s : String) : Option (EPt Nat) :=
  match s.splitOn "," with
  | [x, y] => do
    let x ← parseHexNat x
    let y ← parseHexNat y
    some ⟨x % p, y % p, 1 % p, x * y % p, .basic⟩
  | [x, y, z, r] => do
    let x ← parseHexNat x
    let y ← parseHexNat y
    let z ← parseHexNat z
    some ⟨x * z % p, y * z % p, z % p, x * y % p * z % p, if r == "E" then .extnd else .projc⟩
  | _ => none

/-- the harness fills the destination with 7s (coord = BASIC) before the call -/
def prior : EPt Nat := ⟨7, 7, 7, 7, .basic⟩

/-- the oracle's print of a point (ed_out): affine coordinates by plain field operations, then the flags -/
def fmtRep (p : Nat) (r : EPt Nat) (wantT : Bool) : String :=
  let tflag := if wantT && r.t * r.z % p != r.x * r.y % p then " T-BAD" else ""
  match r.coord with
  | .basic => natToHex (r.x % p) ++ "," ++ natToHex (r.y % p) ++ (if r.z % p != 1 % p then " BASIC-WITH-Z!=1" else "") ++ tflag
  | _ =>
    if r.z % p == 0 then "Z=0" else
    let zi := Relic.Model.Formula.invEuclid p r.z
    natToHex (r.x * zi % p) ++ "," ++ natToHex (r.y * zi % p) ++ tflag

def ordTag (c : Curve) (nm : String) (q : Point) : List String :=
  match smallOrder c q with
  | 0 => []
  | n => [nm ++ ".ord" ++ toString n]

def hexBytes (s : String) : Option (List UInt8) :=
  if s == "." then some [] else
  let cs := s.toList
  let rec go : List Char → Option (List UInt8)
    | a :: b :: rest => do
      let x ← hexDigit a
      let y ← hexDigit b
      let r ← go rest
      some (UInt8.ofNat (x * 16 + y) :: r)
    | [] => some []
    | _ => none
  go cs

def bytesHex (b : List UInt8) : String :=
  if b.isEmpty then "." else String.join (b.map fun x => natToHexPad x.toNat 2)

def h256 : Relic.Spec.Mac.Hash := { h := Relic.Spec.Sha256.sha256, outLen := 32, blockLen := 64 }

/-! the scalar-multiplication models of Model/EdMul.lean, instantiated with the specification's curve arithmetic -/
section Mul
open Relic.Model.MulAlg Relic.Model.EdMul

def gOps (c : Curve) : Ops Point := ⟨neutral c, add c, neg c⟩
def isO (c : Curve) (q : Point) : Bool := (q.1 % c.p, q.2 % c.p) == neutral c

def parOf (e : Env) : Par :=
  { fpBits := e.fpbits, width := ((e.kv.lookup "width").bind String.toNat?).getD 4,
    depth := ((e.kv.lookup "depth").bind String.toNat?).getD 4, ord := e.r }

/-- variable-base routine by name; `none` = not modelled -/
def mulBy (e : Env) (v : String) : Option (Point → Int → Option Point) :=
  let o := gOps e.c
  let par := parOf e
  match v with
  | "basic" => some (mulBasic o (isO e.c))
  | "lwnaf" => some (mulLwnaf o (isO e.c) par)
  | "slide" => some (Relic.Model.EdMul.mulSlide o (isO e.c) par)
  | "monty" => some (mulMonty o (isO e.c))
  | "lwreg" => some (mulLwreg o (isO e.c) par)
  | _ => none

/-- fixed-base routine by name (ed_mul_pre_* + ed_mul_fix_*) -/
def fixBy (e : Env) (v : String) : Option (Point → Int → Option Point) :=
  let o := gOps e.c
  let par := parOf e
  match v with
  | "basic" => some (Relic.Model.EdMul.mulFixBasic o par)
  | "lwnaf" => some (mulFixLwnaf o par)
  | "combs" => some (mulFixCombs o par)
  | "combd" => some (mulFixCombd o par)
  | _ => none

def simBy (e : Env) (v : String) : Option (Point → Int → Point → Int → Option Point) := do
  let o := gOps e.c
  let par := parOf e
  let mul ← mulBy e ((e.kv.lookup "mulm").getD "")
  match v with
  | "basic" => some (simBasic o mul)
  | "trick" => some (Relic.Model.EdMul.simTrick o (isO e.c) par mul)
  | "inter" => some (Relic.Model.EdMul.simInter o (isO e.c) par mul)
  | "joint" => some (Relic.Model.EdMul.simJoint o (isO e.c) par mul)
  | _ => none

def fmtOpt : Option Point → String
  | some q => natToHex q.1 ++ "," ++ natToHex q.2
  | none => "err"

end Mul

partial def handle (e : Env) (w : Nat) (op : String) (args : List String) (got : String) : Option Verdict :=
  let c := e.c
  let cls := fun (s : String) (tags : List String) => some ({ model := s, spec := [s], tags := tags } : Verdict)
  let ctx : Relic.Model.EdConv.Ctx := { c := c, nb := e.nb, R := e.R, srt := sqrtMod c.p, inv := finv c }
  match op, args with
  | "ed2", [o, al, p, q] => do
    let p ← parsePoint p
    let q0 ← parsePoint q
    let q := if al == "3" || al == "4" then p else q0
    let tags := ordTag c "p" p ++ ordTag c "q" q ++ (if p == q then ["equal"] else []) ++ (if p == neg c q then ["opposite"] else [])
      ++ ["alias" ++ al]
    -- model column: the generated formula code (RelicVerif/Gen/EdFormulas.lean) of the build, on the presented
    -- representation and alias pattern
    let ext := e.sys == "extnd"
    let cv : EdC Nat := { a := c.a, d := c.d }
    let fn := "ed_" ++ (if o == "add" || o == "sub" then o ++ "_" ++ e.sys else o)
    let wantT := (ext && (o == "add" || o == "sub")) || o.endsWith "_extnd"
    let alN := al.toNat?.getD 0
    let specPt := if o.startsWith "add" then some (add c p q) else if o.startsWith "sub" then some (sub c p q) else none
    match Relic.Gen.edBin (F := Nat) ext fn alN, parseRep c.p (args.getD 2 ""), parseRep c.p (args.getD 3 ""), specPt with
    | some f, some pr, some qr, some sp =>
      some { model := fmtRep c.p (f (natOps c.p) cv prior pr qr) wantT, spec := [fmtPoint sp], tags := ("gen." ++ fn) :: tags }
    | _, _, _, _ =>
    if o.startsWith "add" then cls (fmtPoint (add c p q)) tags
    else if o.startsWith "sub" then cls (fmtPoint (sub c p q)) tags
    else if o == "cmp" then
      let sp := if p.1 % c.p == q.1 % c.p && p.2 % c.p == q.2 % c.p then "r=0" else "r=2"
      match parseRep c.p (args.getD 2 ""), parseRep c.p (args.getD 3 "") with
      | some pr, some qr =>
        let ops := natOps c.p
        let nrm := fun (a : EPt Nat) => if ext then Relic.Gen.Ed.ed_norm ops cv a a else Relic.Gen.EdP.ed_norm ops cv a a
        some { model := if edCmp ops ext nrm pr qr then "r=0" else "r=2", spec := [sp], tags := "cmp" :: tags }
      | _, _ => cls sp tags
    else none
  | "ed1", [o, al, p] => do
    let p ← parsePoint p
    let tags := ordTag c "p" p
    let ext := e.sys == "extnd"
    let cv : EdC Nat := { a := c.a, d := c.d }
    let fn := "ed_" ++ (if o == "dbl" then o ++ "_" ++ e.sys else if o == "neg" then (if e.sys == "basic" then "neg_basic" else "neg_projc") else o)
    let wantT := (ext && (o == "dbl" || o == "neg" || o == "neg_projc" || o == "norm" || o == "copy")) || o.endsWith "_extnd"
    let alN := al.toNat?.getD 0
    let pn : Point := (p.1 % c.p, p.2 % c.p)
    let specPt := if o.startsWith "dbl" then some (dbl c p) else if o.startsWith "neg" then some (neg c p)
      else if o == "norm" || o == "copy" then some pn else none
    match Relic.Gen.edUn (F := Nat) ext fn alN, parseRep c.p (args.getD 2 ""), specPt with
    | some f, some pr, some sp =>
      let r := f (natOps c.p) cv prior pr
      let nb := if o == "norm" && r.coord != .basic && !(EPt.isInfty (natOps c.p) r) then " NOT-BASIC" else ""
      some { model := fmtRep c.p r wantT ++ nb, spec := [fmtPoint sp], tags := ("gen." ++ fn) :: tags }
    | _, _, _ =>
    if o == "is_infty" then
      match parseRep c.p (args.getD 2 "") with
      | some pr => some { model := "r=" ++ (if EPt.isInfty (natOps c.p) pr then "1" else "0"),
                          spec := ["r=" ++ (if pn == neutral c then "1" else "0")], tags := tags }
      | none => none
    else
    if o.startsWith "dbl" then cls (fmtPoint (dbl c p)) tags
    else if o.startsWith "neg" then cls (fmtPoint (neg c p)) tags
    else if o == "norm" || o == "copy" || o == "blind" then cls (fmtPoint (p.1 % c.p, p.2 % c.p)) tags
    else if o == "on_curve" then cls ("r=" ++ (if onCurve c (p.1 % c.p, p.2 % c.p) then "1" else "0")) tags
    else if o == "is_infty" then cls ("r=" ++ (if (p.1 % c.p, p.2 % c.p) == neutral c then "1" else "0")) tags
    else none
  | "ed_nsim", _ :: pts => do
    -- ed_norm_sim: every entry normalised (affine coordinates of the point each operand denotes, z = 1), whatever the representation —
    -- the neutral element in projective form (0 : Z : Z) included
    let rs ← pts.mapM (parseRep c.p)
    let aff := rs.map fun (r : EPt Nat) =>
      let zi := Relic.Model.Formula.invEuclid c.p r.z
      natToHex (r.x * zi % c.p) ++ "," ++ natToHex (r.y * zi % c.p)
    some { model := got, spec := [String.intercalate ";" aff], tags := ["norm_sim", "norm_sim.n" ++ toString pts.length] }
  | "edm", [v, _, p, k] => do
    let p0 ← parsePoint p
    let k ← parseHexInt k
    let p := if v == "gen" then e.g else p0
    let k := if v == "dig" then ((k.natAbs % 2 ^ w : Nat) : Int) else k
    let mulm := (e.kv.lookup "mulm").getD ""
    let fixm := (e.kv.lookup "fixm").getD ""
    -- model column: the loop models of Model/EdMul.lean (scalar reduced modulo r, Model/MulAlg.lean loops, recodings of
    -- Model/Rec.lean with the C buffer sizes) over the specification's arithmetic; "err" = a recoding does not fit
    let f : Option (Point → Int → Option Point) :=
      if v == "mul" then mulBy e mulm
      else if v == "dig" then mulBy e "basic"
      else if v == "gen" then (fixBy e fixm).map fun fx => Relic.Model.EdMul.mulGen (gOps c) fx
      else if v == "fix_" then fixBy e fixm
      else if v.startsWith "fix_" then fixBy e (v.drop 4).toString
      else mulBy e v
    let sp := fmtPoint (mul c p k)
    if v == "dig" then
      some { model := fmtOpt (Relic.Model.EdMul.mulDig (gOps c) (isO c) w p k.natAbs), spec := [sp], tags := "mul.dig" :: ordTag c "p" p }
    else
    match f with
    | some f =>
      -- branch tags of the double-table comb: is the second column in range / empty / the top column empty
      let par := parOf e
      let dd := (par.ordBits + par.depth - 1) / par.depth
      let ee := (dd + 1) / 2
      let m := par.red k
      let cols := (List.range dd).map fun i => Relic.Model.EdMul.combCol m dd par.depth i
      let combd := v == "fix_combd" || ((v == "fix_" || v == "gen") && fixm == "combd")
      let ctags := if !combd then [] else
        (if dd % 2 == 1 then ["combd.odd_dd"] else ["combd.even_dd"])
        ++ (if cols.all (· == 0) then ["combd.m0"] else [])
        ++ (if (cols.drop ee).all (· == 0) then ["combd.hi_empty"] else [])
        ++ (if (cols.take ee).all (· == 0) && !(cols.all (· == 0)) then ["combd.lo_empty"] else [])
        ++ (if cols.getD (dd - 1) 0 != 0 then ["combd.top_col"] else [])
        ++ (if cols.any (· ≥ 2 ^ (par.depth - 1)) then ["combd.top_row"] else [])
      some { model := fmtOpt (f p k), spec := [sp], tags := ("mul." ++ v) :: (ctags ++ ordTag c "p" p) }
    | none => cls sp (ordTag c "p" p)
  | "edtab", [v, p] => do
    -- the precomputation tables: model = the table constructions of Model/EdMul.lean / EpMul.lean / MulAlg.lean over the affine law,
    -- spec = the integer multiple of P every entry has to be
    let p ← parsePoint p
    let o := gOps c
    let par := parOf e
    let d := par.depth
    let l := (par.ordBits + d - 1) / d
    let ee := (l + 1) / 2
    let cv := fun (i : Nat) => ((List.range d).map fun j => ((i >>> j) % 2) * 2 ^ (j * l)).foldl (· + ·) 0
    let tabs : Option (List Point × List Nat) :=
      if v == "basic" then some (Relic.Model.MulAlg.tabPow2 o p par.ordBits, (List.range par.ordBits).map fun i => 2 ^ i)
      else if v == "combs" then some (Relic.Model.EdMul.tabCombs o p l d, (List.range (2 ^ d)).map cv)
      else if v == "combd" then some (Relic.Model.EpMul.tabCombd o p l ee d,
        ((List.range (2 ^ d)).map cv) ++ ((List.range (2 ^ d)).map fun i => 2 ^ ee * cv i))
      else if v == "lwnaf" then some (Relic.Model.MulAlg.tabOdd o p (2 ^ (d - 2)), (List.range (2 ^ (d - 2))).map fun i => 2 * i + 1)
      else none
    let (tm, ts) ← tabs
    let nrm := fun (q : Point) => fmtPoint (q.1 % c.p, q.2 % c.p)
    some { model := ";".intercalate (tm.map nrm), spec := [";".intercalate (ts.map fun (n : Nat) => fmtPoint (mul c p (Int.ofNat n)))],
           tags := ["tab." ++ v] ++ ordTag c "p" p }
  | "eds", [v, p, k, q, m] => do
    let v := (v.splitOn ".").headD v          -- suffix .p / .q: the result object is an operand; the value is the same
    let p0 ← parsePoint p
    let q ← parsePoint q
    let k ← parseHexInt k
    let m ← parseHexInt m
    let p := if v == "gen" then e.g else p0
    let mulm := (e.kv.lookup "mulm").getD ""
    let fixm := (e.kv.lookup "fixm").getD ""
    let simm := (e.kv.lookup "simm").getD ""
    let sp := fmtPoint (add c (mul c p k) (mul c q m))
    let f : Option (Point → Int → Point → Int → Option Point) :=
      if v == "sim" then simBy e simm
      else if v == "gen" then do
        let mu ← mulBy e mulm
        let fx ← fixBy e fixm
        let si ← simBy e simm
        let plain := if simm == "inter" && fixm == "lwnaf" && e.kv.lookup "preco" == some "1"
          then some (Relic.Model.EdMul.simPlainGen (gOps c) (parOf e)) else none
        some (Relic.Model.EdMul.simGen (gOps c) (isO c) mu fx si plain)
      else simBy e v
    match f with
    | some f => some { model := fmtOpt (f p k q m), spec := [sp], tags := ["sim." ++ v] }
    | none => cls sp []
  | "edla", _ :: rest => handle e w "edl" rest got
  | "edl", n :: rest => do
    let n ← n.toNat?
    let rec go (i : Nat) (l : List String) (acc : Point) : Option Point :=
      match i, l with
      | 0, _ => some acc
      | i + 1, p :: k :: l => do
        let p ← parsePoint p
        let k ← parseHexInt k
        go i l (add c acc (mul c p k))
      | _, _ => none
    let r ← go n rest (neutral c)
    let rec pairs (i : Nat) (l : List String) : Option (List (Point × Int)) :=
      match i, l with
      | 0, _ => some []
      | i + 1, p :: k :: l => do
        let p ← parsePoint p
        let k ← parseHexInt k
        let t ← pairs i l
        some ((p, k) :: t)
      | _, _ => none
    let pks ← pairs n rest
    -- model column: ed_mul_sim_lot = Model/EdMul.lean `simLot` (interleaved binary NAFs of the unreduced scalars)
    let lens := pks.map fun (pk : Point × Int) => Relic.Model.Rec.bitLen pk.2.natAbs
    let tags := ["sim_lot.n" ++ toString n]
      ++ (if pks.any (fun pk => pk.2 < 0) then ["sim_lot.neg"] else [])
      ++ (if pks.any (fun pk => pk.2 == 0) then ["sim_lot.zero"] else [])
      ++ (if pks.any (fun pk => isO c pk.1) then ["sim_lot.O"] else [])
      ++ (if lens.any (fun b => b > e.fpbits) then ["sim_lot.long"] else [])
      ++ (if n > 1 && lens.any (fun b => b + 8 < lens.foldl max 0) then ["sim_lot.uneven"] else [])
    some { model := fmtOpt (Relic.Model.EdMul.simLot (gOps c) pks), spec := [fmtPoint r], tags := tags }
  | "ed_gen", [] => cls (fmtPoint e.g ++ " on=1") []
  | "ed_write_bin", [len, pack, p] => do
    let len ← len.toNat?
    let p ← parsePoint p
    let p := (p.1 % c.p, p.2 % c.p)
    let body := match Relic.Model.EdConv.writeBin ctx len p (pack != "0") with
      | none => "err"
      | some b => bytesHex b
    cls (body ++ " size=" ++ toString (Relic.Model.EdConv.sizeBin ctx p (pack != "0"))) [if p == neutral c then "neutral" else "pack" ++ pack]
  | "ed_read_bin", [h] => do
    let b ← hexBytes h
    match Relic.Model.EdConv.readBin ctx b with
    | none => cls "err" ["rejected"]
    | some q => cls (fmtPoint q ++ " on=1") ["accepted.len" ++ toString b.length]
  | "ed_pck", [p] => do
    let p ← parsePoint p
    let (bit, y) := Relic.Model.EdConv.pck ctx (p.1 % c.p, p.2 % c.p)
    cls ("bit=" ++ toString bit ++ " y=" ++ natToHex y ++ " coord=1 z1=1") []
  | "ed_upk", y :: bit :: _ => do
    let y ← parseHexNat y
    let bit ← bit.toNat?
    -- the header documents the return value as "if the decompression was successful"
    match Relic.Model.EdConv.upk ctx (y % c.p) (bit % 2) with
    | some q => cls ("r=1 " ++ fmtPoint q ++ " on=1") ["upk.ok"]
    | none =>
      -- no x exists: the function has to report failure; the point it leaves is unspecified
      some { model := got, spec := if got.startsWith "r=0 " then [got] else ["r=0 <unspecified>"], tags := ["upk.fail"] }
  | "ed_map", [m] => do
    let m ← hexBytes m
    match hashToCurve25519 c h256 e.level m "RELIC".toUTF8.toList with
    | some q =>
      let inSub := mulNat c q e.r == neutral c
      cls (if inSub then fmtPoint q ++ " on=1 coord=1" else "<hash_to_curve result outside the prime-order subgroup>") ["map"]
    | none => cls "err" ["map.abort"]
  | "ed_map_dst", [m, d] => do
    let m ← hexBytes m
    let d ← hexBytes d
    match hashToCurve25519 c h256 e.level m d with
    | some q =>
      let inSub := mulNat c q e.r == neutral c
      cls (if inSub then fmtPoint q ++ " on=1 coord=1" else "<hash_to_curve result outside the prime-order subgroup>") ["map_dst"]
    | none => cls "err" ["map.abort"]
  | _, _ => none

end Driver.C17
