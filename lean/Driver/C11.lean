/- C11 handlers: the twist over the quadratic extension.  The context (`ep2_param` line) is what the running library
   reports; its defining properties are checked here.  Model column of add/dbl: the formula code generated from the C
   templates instantiated for (ep2, fp2) (RelicVerif/Gen/Ep2Formulas.lean), executed over the tower arithmetic. -/
import Driver.C03
import RelicVerif.Spec.CurveX
import RelicVerif.Gen.Ep2Formulas

namespace Driver.C11
open Driver Relic.Spec.Tower Relic.Spec.CurveX Relic.Model.Formula

structure Env where
  c : CurveX
  g : PointX
  n : Nat
  h : Nat
  n1 : Nat
  kv : List (String × String)

def fp2Desc (p : Nat) (qnr : Int) : Desc := { p := p, levels := [{ deg := 2, nr := [(qnr % (p : Int)).toNat] }] }

def parseEl (d : Desc) (a b : String) : Option (List Nat) := do
  let a ← parseHexNat a
  let b ← parseHexNat b
  some (d.canon [a, b])

def parseEnv (got : String) : Option Env := do
  let kv := (got.splitOn " ").filterMap fun t => match t.splitOn "=" with
    | [k, v] => some (k, v)
    | _ => none
  let p ← parseHexNat (← kv.lookup "p")
  let qnr ← (← kv.lookup "qnr").toInt?
  let d := fp2Desc p qnr
  let el := fun (s : String) => match s.splitOn "," with
    | [a, b] => parseEl d a b
    | _ => none
  let a ← el (← kv.lookup "a")
  let b ← el (← kv.lookup "b")
  let g ← match (← kv.lookup "g").splitOn "," with
    | [x0, x1, y0, y1] => do some (some ((← parseEl d x0 x1), (← parseEl d y0 y1)))
    | _ => none
  let n ← parseHexNat (← kv.lookup "n")
  let h ← parseHexNat (← kv.lookup "h")
  let n1 ← parseHexNat (← kv.lookup "n1")
  some { c := { d := d, a := a, b := b }, g := g, n := n, h := h, n1 := n1, kv := kv }

def legendre (p a : Nat) : Int :=
  if a % p = 0 then 0 else if Relic.Spec.Curve.powMod a ((p - 1) / 2) p = 1 then 1 else -1

/-- defining properties of the reported twist: the extension is a field (qnr is a non-residue), the generator is on the twist,
    r·G = O with the same r as the base curve, and the cofactor times r is the order of the twist:
    #E'(Fp2) = h·r must kill G (checked) and lie in the Hasse interval for q = p² -/
def checkParam (e : Env) : List String :=
  let d := e.c.d
  let qnr := ((d.levels.headD default).nr).headD 0
  (if legendre d.p qnr == -1 then [] else ["qnr is a quadratic residue: Fp[u]/(u^2 - qnr) is not a field"]) ++
  (if onCurve e.c e.g && e.g != none then [] else ["generator not on the twist"]) ++
  (if e.n == e.n1 then [] else ["order of G2 differs from the order of G1"]) ++
  (if mulNat e.c e.g e.n == none then [] else ["r*G2 is not the identity"]) ++
  (let q := d.p * d.p
   let N := e.h * e.n
   -- |N - q - 1| ≤ 2 sqrt q = 2p
   if N + 2 * d.p ≥ q + 1 ∧ N ≤ q + 1 + 2 * d.p then [] else ["h*r outside the Hasse interval of the twist"])

def towerFOps (d : Desc) : FOps (List Nat) where
  zero := d.zero
  one := d.one
  add a b := d.canon (d.add a b)
  sub a b := d.canon (d.sub a b)
  mul a b := d.canon (d.mul a b)
  neg a := d.canon (d.neg a)
  sqr a := d.canon (d.sqr a)
  dbl a := d.canon (d.add a a)
  hlv a := d.canon (d.mul a (d.ofNat ((d.p + 1) / 2)))
  inv a := (d.inv? a).getD d.zero
  ofNat n := d.ofNat n
  isZero a := d.isZero a

def parsePoint (d : Desc) (s : String) : Option PointX :=
  if s == "inf" then some none else
  match s.splitOn "," with
  | x0 :: x1 :: y0 :: y1 :: _ => do some (some ((← parseEl d x0 x1), (← parseEl d y0 y1)))
  | _ => none

/-- the operand as the C function receives it -/
def parseRep (d : Desc) (s : String) : Option (Pt (List Nat)) :=
  if s == "inf" then some ⟨d.zero, d.zero, d.zero, .basic⟩ else
  match s.splitOn "," with
  | [x0, x1, y0, y1] => do some ⟨← parseEl d x0 x1, ← parseEl d y0 y1, d.one, .basic⟩
  | [x0, x1, y0, y1, z0, z1, r] => do
    let x ← parseEl d x0 x1
    let y ← parseEl d y0 y1
    let z ← parseEl d z0 z1
    let z2 := d.mul z z
    if r == "P" then some ⟨d.canon (d.mul x z), d.canon (d.mul y z), z, .projc⟩
    else some ⟨d.canon (d.mul x z2), d.canon (d.mul y (d.mul z2 z)), z, .jacob⟩
  | _ => none

def normPt (d : Desc) (r : Pt (List Nat)) : PointX :=
  if d.isZero r.z then none else
  let zi := (d.inv? r.z).getD d.zero
  let zi2 := d.mul zi zi
  match r.coord with
  | .basic => some (d.canon r.x, d.canon r.y)
  | .projc => some (d.canon (d.mul r.x zi), d.canon (d.mul r.y zi))
  | .jacob => some (d.canon (d.mul r.x zi2), d.canon (d.mul r.y (d.mul zi2 zi)))

def fmtPoint (d : Desc) : PointX → String
  | none => "inf"
  | some (x, y) => String.intercalate "," ((d.canon x ++ d.canon y).map natToHex)

def handle (e : Env) (w : Nat) (op : String) (args : List String) (got : String) : Option Verdict :=
  let c := e.c
  let d := c.d
  let cls := fun (s : String) => some ({ model := s, spec := [s] } : Verdict)
  let pI := fun (s : String) => (parseBn w s).map (Relic.Model.Bn.toInt (2 ^ w))
  let cv : CurveC (List Nat) := { a := c.a, b := c.b, optA := C03.optAOf (e.kv.lookup "opta") }
  let fo := towerFOps d
  match op, args with
  | "e2b", [o, al, p, q] => do
    let p' ← parsePoint d p
    let q0 ← parsePoint d q
    let q' := if al == "3" || al == "4" then p' else q0
    let genAdd : Option (FOps (List Nat) → CurveC (List Nat) → Pt (List Nat) → Pt (List Nat) → Pt (List Nat)) :=
      if o == "add_basic" then some Relic.Gen.ep2_add_basic
      else if o == "add_projc" || o == "add" then some Relic.Gen.ep2_add_projc
      else if o == "add_jacob" then some Relic.Gen.ep2_add_jacob else none
    match genAdd, parseRep d p, parseRep d (if al == "3" || al == "4" then p else q) with
    | some f, some pr, some qr =>
      some { model := fmtPoint d (normPt d (f fo cv pr qr)), spec := [fmtPoint d (add c p' q')], tags := ["gen." ++ o] }
    | _, _, _ =>
    if o.startsWith "add" then cls (fmtPoint d (add c p' q'))
    else if o == "sub" then cls (fmtPoint d (add c p' (neg c q')))
    else if o == "cmp" then cls (if canonPt c p' == canonPt c q' then "r=0" else "r=2")
    else none
  | "e2u", o :: _ :: p :: rest => do
    let p' ← parsePoint d p
    let genDbl : Option (FOps (List Nat) → CurveC (List Nat) → Pt (List Nat) → Pt (List Nat)) :=
      if o == "dbl_basic" then some Relic.Gen.ep2_dbl_basic
      else if o == "dbl_projc" || o == "dbl" then some Relic.Gen.ep2_dbl_projc
      else if o == "dbl_jacob" then some Relic.Gen.ep2_dbl_jacob else none
    match genDbl, parseRep d p with
    | some f, some pr =>
      some { model := fmtPoint d (normPt d (f fo cv pr)), spec := [fmtPoint d (dbl c p')], tags := ["gen." ++ o] }
    | _, _ =>
    if o.startsWith "dbl" then cls (fmtPoint d (dbl c p'))
    else if o == "neg" then cls (fmtPoint d (neg c p'))
    else if o == "norm" || o == "blind" then cls (fmtPoint d p')
    else if o == "on_curve" then cls ("r=" ++ (if onCurve c p' then "1" else "0"))
    else if o == "frb" then
      -- on the order-r subgroup the twisted Frobenius acts as multiplication by p (i times: by p^i)
      let i := (rest.headD "1").toNat?.getD 1
      let inSub := mulNat c p' e.n == none
      if inSub then
        let k := Relic.Spec.Curve.powMod d.p i e.n
        some { model := got, spec := [fmtPoint d (mulNat c p' k)], tags := ["frb" ++ toString i] }
      else
        -- outside the subgroup only "an endomorphism of the twist" is claimed: the image must be on the curve
        match parsePoint d got with
        | some r => some { model := got, spec := [if onCurve c r then got else "<point of the twist>"], tags := ["frb.outside"] }
        | none => some { model := got, spec := ["<point>"], tags := ["frb.outside"] }
    else if o == "mul_cof" then
      -- every curve point is sent into the order-r subgroup; for the efficient map the image is a fixed non-zero multiple of h·P:
      -- accepted iff r·image = O and (h·P = O ↔ image = O)
      match parsePoint d got with
      | some r =>
        let ok := onCurve c r && mulNat c r e.n == none && ((mulNat c p' e.h == none) == (r == none))
        some { model := got, spec := [if ok then got else "<point of order dividing r, zero iff h*P is>"],
               tags := [if mulNat c p' e.n == none then "cof.inside" else "cof.outside"] }
      | none => some { model := got, spec := ["<point>"], tags := ["cof"] }
    else none
  | "e2m", [v, _, p, k] => do
    let p0 ← parsePoint d p
    let k ← pI k
    let p' := if v == "gen" then e.g else p0
    let k' := if v == "dig" then ((k.natAbs % 2 ^ w : Nat) : Int) else k
    some { model := got, spec := [fmtPoint d (mul c p' k')], tags := ["mul." ++ v] }
  | "e2s", [v, p, k, q, m] => do
    let p0 ← parsePoint d p
    let q' ← parsePoint d q
    let k ← pI k
    let m ← pI m
    let p' := if v == "gen" then e.g else p0
    some { model := got, spec := [fmtPoint d (add c (mul c p' k) (mul c q' m))], tags := ["sim." ++ v] }
  | "e2pt", [_, _] =>
    if got == "none" then some { model := got, spec := [got], tags := ["pt.none"] } else
    match parsePoint d got with
    | some r => some { model := got, spec := [if onCurve c r && r != none then got else "<point of the twist>"],
                       tags := [if mulNat c r e.n == none then "pt.inside" else "pt.outside"] }
    | none => some { model := got, spec := ["<point>"], tags := ["pt"] }
  | _, _ =>
    -- e2l / e2d / e2la / e2da <[j]> <n> <P1> <k1> …
    if op == "e2l" || op == "e2d" || op == "e2la" || op == "e2da" then
      let args := if op.endsWith "a" then args.drop 1 else args
      match args with
      | n :: rest => do
        let n ← n.toNat?
        let dig := op.startsWith "e2d"
        let rec go (i : Nat) (l : List String) (acc : PointX) : Option PointX :=
          match i, l with
          | 0, _ => some acc
          | i + 1, p :: k :: l => do
            let p ← parsePoint d p
            let k ← pI k
            let k := if dig then ((k.natAbs % 2 ^ w : Nat) : Int) else k
            go i l (add c acc (mul c p k))
          | _, _ => none
        let r ← go n rest none
        some { model := got, spec := [fmtPoint d r], tags := [op] }
      | _ => none
    else none

end Driver.C11
