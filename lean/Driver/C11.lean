/- C11 handlers: the twist over the quadratic extension.  The context (`ep2_param` line) is what the running library
   reports; its defining properties are checked here.  Model column of add/dbl: the formula code generated from the C
   templates instantiated for (ep2, fp2) (RelicVerif/Gen/Ep2Formulas.lean), executed over the tower arithmetic. -/
import Driver.C03
import RelicVerif.Spec.CurveX
import RelicVerif.Gen.Ep2Formulas
import RelicVerif.Model.Ep2Conv
import RelicVerif.Model.Ep2Mul

namespace Driver.C11
open Driver Relic.Spec.Tower Relic.Spec.CurveX Relic.Model.Formula

structure Env where
  c : CurveX
  g : PointX
  n : Nat
  h : Nat
  n1 : Nat
  kv : List (String × String)

def fp2Desc (p : Nat) (qnr : Int) : Desc := { p := p, levels := [{ deg := 2, nr := [(qnr % (p : Int)).toNat] }] }

def parseEl (d : Desc) (a b : String) : Option (List Nat) := do
  let a ← parseHexNat a
  let b ← parseHexNat b
  some (d.canon [a, b])

def parseEnv (got : String) : Option Env := do
  let kv := (got.splitOn " ").filterMap fun t => match t.splitOn "=" with
    | [k, v] => some (k, v)
    | _ => none
  let p ← parseHexNat (← kv.lookup "p")
  let qnr ← (← kv.lookup "qnr").toInt?
  let d := fp2Desc p qnr
  let el := fun (s : String) => match s.splitOn "," with
    | [a, b] => parseEl d a b
    | _ => none
  let a ← el (← kv.lookup "a")
  let b ← el (← kv.lookup "b")
  let g ← match (← kv.lookup "g").splitOn "," with
    | [x0, x1, y0, y1] => do some (some ((← parseEl d x0 x1), (← parseEl d y0 y1)))
    | _ => none
  let n ← parseHexNat (← kv.lookup "n")
  let h ← parseHexNat (← kv.lookup "h")
  let n1 ← parseHexNat (← kv.lookup "n1")
  some { c := { d := d, a := a, b := b }, g := g, n := n, h := h, n1 := n1, kv := kv }

def legendre (p a : Nat) : Int :=
  if a % p = 0 then 0 else if Relic.Spec.Curve.powMod a ((p - 1) / 2) p = 1 then 1 else -1

/-- defining properties of the reported twist: the extension is a field (qnr is a non-residue), the generator is on the twist,
    r·G = O with the same r as the base curve, and the cofactor times r is the order of the twist:
    #E'(Fp2) = h·r must kill G (checked) and lie in the Hasse interval for q = p² -/
def checkParamBase (e : Env) : List String :=
  let d := e.c.d
  let qnr := ((d.levels.headD default).nr).headD 0
  (if legendre d.p qnr == -1 then [] else ["qnr is a quadratic residue: Fp[u]/(u^2 - qnr) is not a field"]) ++
  (if onCurve e.c e.g && e.g != none then [] else ["generator not on the twist"]) ++
  (if e.n == e.n1 then [] else ["order of G2 differs from the order of G1"]) ++
  (if mulNat e.c e.g e.n == none then [] else ["r*G2 is not the identity"]) ++
  (let q := d.p * d.p
   let N := e.h * e.n
   -- |N - q - 1| ≤ 2 sqrt q = 2p
   if N + 2 * d.p ≥ q + 1 ∧ N ≤ q + 1 + 2 * d.p then [] else ["h*r outside the Hasse interval of the twist"])

def towerFOps (d : Desc) : FOps (List Nat) where
  zero := d.zero
  one := d.one
  add a b := d.canon (d.add a b)
  sub a b := d.canon (d.sub a b)
  mul a b := d.canon (d.mul a b)
  neg a := d.canon (d.neg a)
  sqr a := d.canon (d.sqr a)
  dbl a := d.canon (d.add a a)
  hlv a := d.canon (d.mul a (d.ofNat ((d.p + 1) / 2)))
  inv a := (d.inv? a).getD d.zero
  ofNat n := d.ofNat n
  isZero a := d.isZero a

def parsePoint (d : Desc) (s : String) : Option PointX :=
  if s == "inf" then some none else
  match s.splitOn "," with
  | x0 :: x1 :: y0 :: y1 :: _ => do some (some ((← parseEl d x0 x1), (← parseEl d y0 y1)))
  | _ => none

/-- the operand as the C function receives it -/
def parseRep (d : Desc) (s : String) : Option (Pt (List Nat)) :=
  if s == "inf" then some ⟨d.zero, d.zero, d.zero, .basic⟩ else
  match s.splitOn "," with
  | [x0, x1, y0, y1] => do some ⟨← parseEl d x0 x1, ← parseEl d y0 y1, d.one, .basic⟩
  | [x0, x1, y0, y1, z0, z1, r] => do
    let x ← parseEl d x0 x1
    let y ← parseEl d y0 y1
    let z ← parseEl d z0 z1
    let z2 := d.mul z z
    if r == "P" then some ⟨d.canon (d.mul x z), d.canon (d.mul y z), z, .projc⟩
    else some ⟨d.canon (d.mul x z2), d.canon (d.mul y (d.mul z2 z)), z, .jacob⟩
  | _ => none

def normPt (d : Desc) (r : Pt (List Nat)) : PointX :=
  if d.isZero r.z then none else
  let zi := (d.inv? r.z).getD d.zero
  let zi2 := d.mul zi zi
  match r.coord with
  | .basic => some (d.canon r.x, d.canon r.y)
  | .projc => some (d.canon (d.mul r.x zi), d.canon (d.mul r.y zi))
  | .jacob => some (d.canon (d.mul r.x zi2), d.canon (d.mul r.y (d.mul zi2 zi)))

def fmtPoint (d : Desc) : PointX → String
  | none => "inf"
  | some (x, y) => String.intercalate "," ((d.canon x ++ d.canon y).map natToHex)

/-! ### model column of the scalar multiplications that do not go through the Frobenius (GLS) recoding: the loops of
    Model/MulAlg.lean and Model/EpMul.lean with the recodings of Model/Rec.lean at the buffer capacities of
    src/epx/relic_ep2_mul*.c, over the affine law of the twist (Spec/CurveX).  Differences from the prime-curve routines that are
    mirrored: ep2_mul_slide recodes |k| itself (no reduction modulo r; capacity RLC_FP_BITS + 1), the single-table comb has no
    endomorphism form, ep2_mul_fix_lwnaf recodes with capacity 2·RLC_FP_BITS + 1, ep2_mul_sim_trick with ⌈2·RLC_FP_BITS / w⌉ windows. -/

section mulModel
open Relic.Model.MulAlg Relic.Model.EpMul Relic.Model.Rec
open Relic.Model.EbMul (tabCombs)

structure MulCtx where
  c : CurveX
  n : Nat
  g : PointX
  endom : Bool
  width : Nat
  depth : Nat
  fpbits : Nat
  wd : Nat
  /-- constants of ep2_frb, family parameter, BN branch of bn_rec_frb (none: the context line does not report them) -/
  frb : Option (List Nat × List Nat × Int × Bool)

def mkCtx (e : Env) (wd : Nat) : Option MulCtx := do
  let num := fun (k : String) => (e.kv.lookup k).bind String.toNat?
  let el := fun (k : String) => (e.kv.lookup k).bind fun s => match s.splitOn "," with
    | [a, b] => parseEl e.c.d a b
    | _ => none
  let frb : Option (List Nat × List Nat × Int × Bool) := do
    some (← el "frb0", ← el "frb1", ← (e.kv.lookup "u").bind C03.parseHexInt', e.kv.lookup "bnfam" == some "1")
  some { c := e.c, n := e.n, g := e.g, endom := e.kv.lookup "endom" == some "1",
         width := ← num "width", depth := ← num "depth", fpbits := ← num "fpbits", wd := wd, frb := frb }

/-- ep2_frb(·, 1) on an affine point: (x, y) ↦ (conj(x)·frb0, conj(y)·frb1) -/
def psiOf (c : CurveX) (f0 f1 : List Nat) : PointX → PointX
  | none => none
  | some (x, y) => some (c.d.canon (c.d.mul (c.d.frobenius x) f0), c.d.canon (c.d.mul (c.d.frobenius y) f1))

def xops (c : CurveX) : Relic.Model.MulAlg.Ops PointX := ⟨none, add c, neg c⟩
def ceilDiv (a b : Nat) : Nat := (a + b - 1) / b
def emod (k : Int) (n : Nat) : Nat := (k % (n : Int)).toNat

/-- bn_rec_frb on k mod n -/
def recFrb (m : MulCtx) (x : Int) (bn : Bool) (k : Int) : List Int :=
  let K := emod k m.n
  if bn then Relic.Model.Ep2Mul.recFrbBN K m.n x else Relic.Model.Ep2Mul.recFrbBase K x

/-- ep2_mul_lwnaf = ep2_mul on an endomorphism curve, past the early exit (none = reported error) -/
def mGls (m : MulCtx) (pt : PointX) (k : Int) : Option (Option PointX) := do
  let (f0, f1, x, bn) ← m.frb
  let o := xops m.c
  let ks := recFrb m x bn k
  let sub := fun (i : Nat) => ks.getD i 0
  let naf := fun (i : Nat) => recNaf (m.fpbits + 1) (sub i).natAbs m.width
  match naf 0, naf 1, naf 2, naf 3 with
  | some n0, some n1, some n2, some n3 =>
    some (some (Relic.Model.Ep2Mul.mulGls o (psiOf m.c f0 f1) pt (2 ^ (m.width - 2)) (sub 0 < 0) (sub 1 < 0) (sub 2 < 0) (sub 3 < 0) n0 n1 n2 n3))
  | _, _, _, _ => some none

/-- ep2_mul as a sub-routine -/
def mMul (m : MulCtx) (pt : PointX) (k : Int) : Option (Option PointX) :=
  if k == 0 || pt == none then some (some none) else if m.endom then mGls m pt k else none

/-- the points ±ψ^j(P) and binary NAFs of the sub-scalars of one (point, scalar) pair (ep2_mul_sim_endom, ep2_mul_sim_lot n ≤ 10) -/
def glsStrings (m : MulCtx) (pt : PointX) (k : Int) : Option (List (PointX × Option (List Int))) := do
  let (f0, f1, x, bn) ← m.frb
  let o := xops m.c
  let psi := psiOf m.c f0 f1
  let ks := recFrb m x bn k
  let p1 := psi pt
  let p2 := psi p1
  let p3 := psi p2
  some (([pt, p1, p2, p3].zip ks).map fun (q, kj) => (if kj < 0 then o.neg q else q, recNaf (m.fpbits + 1) kj.natAbs 2))

/-- ep2_mul_sim_endom: the eight strings in the order the loop visits them (P0, Q0, P1, Q1, …) -/
def mSimEndom (m : MulCtx) (pt : PointX) (k : Int) (qt : PointX) (l : Int) : Option (Option PointX) := do
  let a ← glsStrings m pt k
  let b ← glsStrings m qt l
  let all := (a.zip b).flatMap fun (x, y) => [x, y]
  if all.any (fun s => s.2.isNone) then some none else
  let nafs := all.map fun s => s.2.getD []
  let len := (nafs.map List.length).foldl max 0
  some (some (simLotNaf (xops m.c) (all.map (·.1)) nafs len))

/-- ep2_mul_sim_inter = ep2_mul_sim -/
def mInter (m : MulCtx) (pt : PointX) (k : Int) (qt : PointX) (l : Int) : Option (Option PointX) :=
  if k == 0 || pt == none then mMul m qt l
  else if l == 0 || qt == none then mMul m pt k
  else if m.endom then mSimEndom m pt k qt l else none

/-- `e2l`: ep2_mul_sim_lot: interleaved binary NAFs of the 4n points for n ≤ 10, buckets above -/
def modelLot (m : MulCtx) (pks : List (PointX × Int)) : Option String := do
  if pks.length == 0 then some "inf" else
  if pks.length > 10 then
    let (f0, f1, x, bn) ← m.frb
    let w := max 2 (bitLen pks.length - 2)
    let nafs := pks.map fun (pk : PointX × Int) =>
      (recFrb m x bn pk.2).map fun kj => (recNaf (m.fpbits + 1) kj.natAbs w).map fun ds => if kj < 0 then ds.map (fun dg => -dg) else ds
    if nafs.any (fun r => r.any Option.isNone) then some "err" else
    let nafs := nafs.map fun r => r.map fun x => x.getD []
    let len := (nafs.map fun r => (r.map List.length).foldl max 0).foldl max 0
    some (fmtPoint m.c.d (Relic.Model.Ep2Mul.simLotBucket4 (xops m.c) (psiOf m.c f0 f1) (pks.map (·.1)) nafs (2 ^ (w - 2)) len))
  else
  let strs ← pks.mapM fun (pk : PointX × Int) => glsStrings m pk.1 pk.2
  let all := strs.flatten
  if all.any (fun s => s.2.isNone) then some "err" else
  let nafs := all.map fun s => s.2.getD []
  let len := (nafs.map List.length).foldl max 0
  some (fmtPoint m.c.d (simLotNaf (xops m.c) (all.map (·.1)) nafs len))

/-- what the reported Frobenius data must satisfy (hypotheses of the GLS theorems): ψ(G) = [p mod r]G, and every column of the
    BN lattice used by bn_rec_frb annihilates G: Σ_j rows[j][i]·ψ^j(G) = O -/
def checkFrb (m : MulCtx) : List String :=
  match m.frb with
  | none => []
  | some (f0, f1, x, bn) =>
    let c := m.c
    let psi := psiOf c f0 f1
    let g1 := psi m.g
    let g2 := psi g1
    let g3 := psi g2
    (if canonPt c g1 == canonPt c (mulNat c m.g (c.d.p % m.n)) then [] else ["psi(G2) != [p mod r]G2"]) ++
    (if !bn then [] else
      (List.range 4).filterMap fun i =>
        let col := (Relic.Model.Ep2Mul.frbRows x).map fun row => row.getD i 0
        let s := ([m.g, g1, g2, g3].zip col).foldl (fun acc (q, u) => add c acc (mul c q u)) none
        if s == none then none else some ("column " ++ toString i ++ " of the bn_rec_frb lattice does not annihilate G2"))

/-- `e2m`: none = the routine is not modelled here (Frobenius recodings); some "err" = the model predicts a reported error -/
def modelMul (m : MulCtx) (v : String) (pt : PointX) (k : Int) : Option String :=
  let o := xops m.c
  let d := m.c.d
  let w := m.width
  let dp := m.depth
  let bitsN := bitLen m.n
  let K := emod k m.n
  let sgn := fun (r : PointX) => if k < 0 then o.neg r else r
  let out := fun (r : Option PointX) => match r with
    | some j => some (fmtPoint d j)
    | none => some "err"
  let nafDig := fun (a cap : Nat) => (recNaf cap a 2).map fun ds => mulSigned o [pt] none ds
  let trivial := k == 0 || pt == none
  let combs := fun (base : PointX) =>
    let l := ceilDiv bitsN dp
    mulCombsPlain o (tabCombs o base l dp) K l dp
  if v == "basic" || v == "big" then
    if trivial then some "inf"
    else if bitLen k.natAbs ≤ m.wd then out ((nafDig k.natAbs (m.wd + 1)).map sgn)
    else out ((nafDig k.natAbs (bitLen k.natAbs + 1)).map sgn)
  else if v == "dig" then
    if trivial then some "inf" else out (nafDig k.natAbs (m.wd + 1))
  else if v == "slide" then
    if trivial then some "inf" else
    out ((recSlw (m.fpbits + 1) k.natAbs w).map fun win => sgn (mulSlide o (tabOdd o pt (2 ^ (w - 1))) o.zero win))
  else if v == "monty" then
    if trivial then some "inf" else
    let l := K + m.n
    let l := if l.testBit bitsN then l else l + m.n
    out (some (mulLadder o pt ((List.range bitsN).reverse.map fun i => l.testBit i)))
  else if v == "lwnaf" || v == "mul" then
    if trivial then some "inf" else if !m.endom then none else (mGls m pt k).bind out
  else if v == "gen" then
    if k == 0 then some "inf" else out (some (combs m.g))
  else if v == "fix_basic" then
    -- an identity base gives a table of identities (no error, unlike ep2_mul_pre_lwnaf)
    if k == 0 then some "inf" else
    out (some (mulFixBasic o (tabPow2 o pt bitsN) o.zero K))
  else if v == "fix_combs" || v == "fix_" then
    if k == 0 then some "inf" else out (some (combs pt))
  else if v == "fix_combd" then
    if k == 0 then some "inf" else
    let dd := ceilDiv bitsN dp
    let e := ceilDiv dd 2
    out (some (mulCombd o (tabCombd o pt dd e dp) K dd e dp))
  else if v == "fix_lwnaf" then
    -- ep2_tab normalises t[1 …] simultaneously: with an identity base that is an inversion of zero, reported (known finding)
    if pt == none then some "err" else if k == 0 || K == 0 then some "inf" else
    out ((recNaf (2 * m.fpbits + 1) K dp).map fun ds => mulSigned o (tabOdd o pt (2 ^ (dp - 2))) o.zero ds)
  else none

/-- `e2s` -/
def modelSim (m : MulCtx) (v : String) (pt : PointX) (k : Int) (qt : PointX) (l : Int) : Option String :=
  let o := xops m.c
  let d := m.c.d
  let out := fun (r : Option PointX) => match r with
    | some j => some (fmtPoint d j)
    | none => some "err"
  let K := emod k m.n
  let L := emod l m.n
  if v == "basic" then
    match mMul m qt l, mMul m pt k with
    | some (some a), some (some b) => out (some (o.add a b))
    | some _, some _ => some "err"
    | _, _ => none
  else if v == "inter" || v == "sim" then (mInter m pt k qt l).bind out
  else if v == "gen" then
    if k == 0 then (mMul m qt l).bind out
    else if l == 0 || qt == none then modelMul m "gen" m.g k
    else (mInter m m.g (K : Int) qt (L : Int)).bind out
  else if k == 0 || pt == none then (if v == "trick" || v == "joint" then (mMul m qt l).bind out else none)
  else if l == 0 || qt == none then (if v == "trick" || v == "joint" then (mMul m pt k).bind out else none)
  else if v == "trick" then
    let w := m.width / 2
    let tab := tabTrick o pt qt w
    -- ep2_norm_sim over t[2 …]: an identity among them is a reported error (known finding)
    if (tab.drop 2).any (fun (x : PointX) => x == none) then some "err" else
    let cap := ceilDiv (2 * m.fpbits) w
    match recWin cap K w, recWin cap L w with
    | some w0, some w1 => out (some (simTrick o tab o.zero w w0 w1))
    | _, _ => some "err"
  else if v == "joint" then
    if o.add pt qt == none || o.sub pt qt == none then some "err" else
    match recJsf (2 * (m.fpbits + 1)) K L with
    | some (j0, j1) => out (some (simJoint o pt qt j0 j1))
    | none => some "err"
  else none

/-- the defining properties of the twist plus those of the Frobenius data the GLS models use -/
def checkParam (e : Env) : List String :=
  checkParamBase e ++ (match mkCtx e 64 with
    | some m => checkFrb m
    | none => [])

end mulModel

def handle (e : Env) (w : Nat) (op : String) (args : List String) (got : String) : Option Verdict :=
  let c := e.c
  let d := c.d
  let cls := fun (s : String) => some ({ model := s, spec := [s] } : Verdict)
  let pI := fun (s : String) => (parseBn w s).map (Relic.Model.Bn.toInt (2 ^ w))
  let cv : CurveC (List Nat) := { a := c.a, b := c.b, optA := C03.optAOf (e.kv.lookup "opta") }
  let fo := towerFOps d
  match op, args with
  | "e2b", [o, al, p, q] => do
    let p' ← parsePoint d p
    let q0 ← parsePoint d q
    let q' := if al == "3" || al == "4" then p' else q0
    let genAdd : Option (FOps (List Nat) → CurveC (List Nat) → Pt (List Nat) → Pt (List Nat) → Pt (List Nat)) :=
      if o == "add_basic" then some Relic.Gen.ep2_add_basic
      else if o == "add_projc" || o == "add" then some Relic.Gen.ep2_add_projc
      else if o == "add_jacob" then some Relic.Gen.ep2_add_jacob else none
    match genAdd, parseRep d p, parseRep d (if al == "3" || al == "4" then p else q) with
    | some f, some pr, some qr =>
      some { model := fmtPoint d (normPt d (f fo cv pr qr)), spec := [fmtPoint d (add c p' q')], tags := ["gen." ++ o] }
    | _, _, _ =>
    if o.startsWith "add" then cls (fmtPoint d (add c p' q'))
    else if o == "sub" then cls (fmtPoint d (add c p' (neg c q')))
    else if o == "cmp" then cls (if canonPt c p' == canonPt c q' then "r=0" else "r=2")
    else none
  | "e2u", o :: _ :: p :: rest => do
    let p' ← parsePoint d p
    let genDbl : Option (FOps (List Nat) → CurveC (List Nat) → Pt (List Nat) → Pt (List Nat)) :=
      if o == "dbl_basic" then some Relic.Gen.ep2_dbl_basic
      else if o == "dbl_projc" || o == "dbl" then some Relic.Gen.ep2_dbl_projc
      else if o == "dbl_jacob" then some Relic.Gen.ep2_dbl_jacob else none
    match genDbl, parseRep d p with
    | some f, some pr =>
      some { model := fmtPoint d (normPt d (f fo cv pr)), spec := [fmtPoint d (dbl c p')], tags := ["gen." ++ o] }
    | _, _ =>
    if o.startsWith "dbl" then cls (fmtPoint d (dbl c p'))
    else if o == "neg" then cls (fmtPoint d (neg c p'))
    else if o == "norm" || o == "blind" then cls (fmtPoint d p')
    else if o == "on_curve" then cls ("r=" ++ (if onCurve c p' then "1" else "0"))
    else if o == "frb" then
      -- on the order-r subgroup the twisted Frobenius acts as multiplication by p (i times: by p^i)
      let i := (rest.headD "1").toNat?.getD 1
      let inSub := mulNat c p' e.n == none
      if inSub then
        let k := Relic.Spec.Curve.powMod d.p i e.n
        some { model := got, spec := [fmtPoint d (mulNat c p' k)], tags := ["frb" ++ toString i] }
      else
        -- outside the subgroup only "an endomorphism of the twist" is claimed: the image must be on the curve
        match parsePoint d got with
        | some r => some { model := got, spec := [if onCurve c r then got else "<point of the twist>"], tags := ["frb.outside"] }
        | none => some { model := got, spec := ["<point>"], tags := ["frb.outside"] }
    else if o == "mul_cof" then
      -- every curve point is sent into the order-r subgroup; for the efficient map the image is a fixed non-zero multiple of h·P:
      -- accepted iff r·image = O and (h·P = O ↔ image = O)
      match parsePoint d got with
      | some r =>
        let ok := onCurve c r && mulNat c r e.n == none && ((mulNat c p' e.h == none) == (r == none))
        some { model := got, spec := [if ok then got else "<point of order dividing r, zero iff h*P is>"],
               tags := [if mulNat c p' e.n == none then "cof.inside" else "cof.outside"] }
      | none => some { model := got, spec := ["<point>"], tags := ["cof"] }
    else none
  | "e2m", [v, _, p, k] => do
    let p0 ← parsePoint d p
    let k ← pI k
    let p' := if v == "gen" then e.g else p0
    let k' := if v == "dig" then ((k.natAbs % 2 ^ w : Nat) : Int) else k
    let spec := fmtPoint d (mul c p' k')
    match (mkCtx e w).bind fun mc => modelMul mc v p' k' with
    | some mdl => some { model := mdl, spec := [spec], tags := ["mul." ++ v, "model.mul." ++ v] ++ (if mdl == "err" then ["model.err"] else []) }
    | none => some { model := got, spec := [spec], tags := ["mul." ++ v, "classC.mul." ++ v] }
  | "e2s", [v, p, k, q, m] => do
    let v := (v.splitOn ".").headD v          -- suffix .p / .q: the result object is an operand; the value is the same
    let p0 ← parsePoint d p
    let q' ← parsePoint d q
    let k ← pI k
    let m ← pI m
    let p' := if v == "gen" then e.g else p0
    let spec := fmtPoint d (add c (mul c p' k) (mul c q' m))
    match (mkCtx e w).bind fun mc => modelSim mc v p' k q' m with
    | some mdl => some { model := mdl, spec := [spec], tags := ["sim." ++ v, "model.sim." ++ v] ++ (if mdl == "err" then ["model.err"] else []) }
    | none => some { model := got, spec := [spec], tags := ["sim." ++ v, "classC.sim." ++ v] }
  | "e2frb", [k] => do
    -- bn_rec_frb as the twist routines call it: model = the integer form (Model/Ep2Mul), spec = the sub-scalars the library returned
    -- recombine to k modulo r with λ = p mod r
    let k ← pI k
    let mc ← mkCtx e w
    let (_, _, x, bn) ← mc.frb
    let fmtI := fun (a : Int) => (if a < 0 then "-" else "") ++ natToHex a.natAbs
    let mdl := String.intercalate "," ((recFrb mc x bn k).map fmtI)
    let lam : Int := ((d.p % e.n : Nat) : Int)
    let ok := match (got.splitOn ",").mapM C03.parseHexInt' with
      | some [k0, k1, k2, k3] => (k0 + k1 * lam + k2 * lam ^ 2 + k3 * lam ^ 3 - k) % (e.n : Int) == 0
      | _ => false
    some { model := mdl, spec := [if ok then got else "<k0,k1,k2,k3 with k0 + k1 l + k2 l^2 + k3 l^3 = k mod r>"], tags := ["model.rec_frb" ++ (if bn then ".bn" else ".base")] }
  | "e2wb", [len, pack, q] => do
    -- C07: ep2_write_bin; the model is Model/Ep2Conv.writeBin with the sign rule of ep2_upk (what the property needs for decode ∘ encode = id)
    let len ← len.toNat?
    let pt ← (parseRep d q).map (normPt d)
    let nb := (bitLen d.p + 7) / 8
    let x : Relic.Model.Ep2Conv.Ctx := { c := c, nb := nb, srt := fun _ => none }
    let pk := pack != "0"
    let size := match pt with | none => 1 | some _ => if pk then 2 * nb + 1 else 4 * nb + 1
    let hex := fun (bs : List Nat) => if bs.isEmpty then "." else String.join (bs.map fun b => natToHexPad b 2)
    let m := (match Relic.Model.Ep2Conv.writeBin x true len pt pk with
      | some bs => hex bs
      | none => "err") ++ " size=" ++ toString size
    some { model := m, spec := [m], tags := ["e2wb", if pk then "e2wb.pack" else "e2wb.full", if pt == none then "e2wb.inf" else "e2wb.finite"] }
  | "e2rb", [h] => do
    -- C07: ep2_read_bin; a decoding is accepted exactly when Model/Ep2Conv.readBin accepts it (the square root is taken from the
    -- library's answer and verified; that a root exists is decided with the norm), the result is that point, the library's own
    -- re-encoding in the same format and length reproduces the input, and the result does not depend on the destination's content
    let bs : List Nat ← if h == "." then some [] else
      (List.range (h.length / 2)).mapM fun i => parseHexNat ((h.drop (2 * i)).take 2).toString
    let nb := (bitLen d.p + 7) / 8
    let cand : Option (List Nat) := match parsePoint d ((got.splitOn " ").headD "") with
      | some (some (_, y)) => some y
      | _ => none
    let srt := fun (v : List Nat) => match cand with
      | some y => if d.canon (d.sqr y) == d.canon v then some y else none
      | none => none
    let x : Relic.Model.Ep2Conv.Ctx := { c := c, nb := nb, srt := srt }
    let qnr := ((d.levels.headD default).nr).headD 0
    let isSq := fun (v : List Nat) =>
      let v := d.canon v
      let n := (v.getD 0 0 * v.getD 0 0 + (d.p - qnr % d.p) * (v.getD 1 0 * v.getD 1 0 % d.p)) % d.p
      d.isZero v || legendre d.p n == 1
    -- a compressed string whose x is valid and whose right-hand side is a square must be accepted
    let mustAccept : Bool := bs.length == 2 * nb + 1 && (bs.headD 0 == 2 || bs.headD 0 == 3) &&
      (match Relic.Model.Ep2Conv.elRead x (bs.drop 1) with
       | some px => isSq (rhs c px)
       | none => false)
    let m := match Relic.Model.Ep2Conv.readBin x bs with
      | some pt => fmtPoint d pt ++ " on=1 re=" ++ h
      | none => "err"
    let m := if m == "err" && mustAccept && cand == none then "<the point with this x-coordinate and sign>" else m
    some { model := m, spec := [m], tags := ["e2rb", if m == "err" then "e2rb.reject" else "e2rb.accept",
           if bs.length == 2 * nb + 1 then "e2rb.packed" else if bs.length == 4 * nb + 1 then "e2rb.full" else "e2rb.len"] }
  | "f2rt", [z0, z1, cy] => do
    -- zero has no unitary image (conj(a)/a): the harness reports err before any encoding is attempted
    if got == "err" then
      return { model := "err", spec := [if cy != "0" && parseHexNat z0 == some 0 && parseHexNat z1 == some 0 then "err" else "<a round trip>"],
               tags := ["f2rt.zero"] }
    -- C07: fp2_write_bin / fp2_read_bin round trip: decode(encode(x)) = x in both formats, sizes as advertised (FB+1 for a unitary
    -- element in the packed format, 2·FB otherwise), the plain encoding is the two coefficients big-endian
    let kv := (got.splitOn " ").filterMap fun t => match t.splitOn "=" with
      | [k, v] => some (k, v)
      | _ => none
    let xs ← kv.lookup "x"
    let xe ← match xs.splitOn "," with
      | [a, b] => parseEl d a b
      | _ => none
    let nb := (bitLen d.p + 7) / 8
    let qnr := ((d.levels.headD default).nr).headD 0
    let a0 := xe.getD 0 0
    let a1 := xe.getD 1 0
    let unitary : Bool := (a0 * a0 + (d.p - qnr % d.p) * (a1 * a1 % d.p)) % d.p == 1 % d.p
    let be := fun (n : Nat) => String.join ((Relic.Model.Ep2Conv.beBytes n nb).map fun b => natToHexPad b 2)
    let bad : List String :=
      (if kv.lookup "cyc" == some (if unitary then "1" else "0") then [] else ["cyc flag"]) ++
      (if kv.lookup "size1" == some (toString (if unitary then nb + 1 else 2 * nb)) then [] else ["size of the packed form"]) ++
      (if kv.lookup "size0" == some (toString (2 * nb)) then [] else ["size of the plain form"]) ++
      (if kv.lookup "enc0" == some (be a0 ++ be a1) then [] else ["plain encoding"]) ++
      (if kv.lookup "dec0" == some xs then [] else ["decode(encode(x)) != x in the plain form"]) ++
      (if kv.lookup "dec1" == some xs then [] else ["decode(encode(x)) != x in the packed form"]) ++
      (match kv.lookup "enc1" with
       | some e => if unitary then (if e.length == 2 * (nb + 1) && (e.take (2 * nb)).toString == be a0 &&
                                       ((e.drop (2 * nb)).toString == "00" || (e.drop (2 * nb)).toString == "01") then [] else ["packed encoding"])
                   else (if e == be a0 ++ be a1 then [] else ["packed encoding of a non-unitary element"])
       | none => ["no packed encoding"])
    some { model := got, spec := [if bad.isEmpty then got else "<" ++ String.intercalate "; " bad ++ ">"],
           tags := ["f2rt", if unitary then "f2rt.unitary" else "f2rt.general"] }
  | "f2rb", [h] => do
    -- C07: fp2_read_bin of an arbitrary string: accepted exactly when the length is 2·FB with both coefficients below p, or FB+1 with
    -- a0 < p, a parity byte 0/1 and (a0² − 1)/qnr a square; the result is then valid (unitary in the packed case) and the library's own
    -- re-encoding reproduces the input
    let bs : List Nat ← if h == "." then some [] else
      (List.range (h.length / 2)).mapM fun i => parseHexNat ((h.drop (2 * i)).take 2).toString
    let nb := (bitLen d.p + 7) / 8
    let qnr := ((d.levels.headD default).nr).headD 0
    let p := d.p
    let expectAccept : Bool :=
      if bs.length == 2 * nb then
        Relic.Model.Ep2Conv.beVal (bs.take nb) < p && Relic.Model.Ep2Conv.beVal (bs.drop nb) < p
      else if bs.length == nb + 1 then
        let a0 := Relic.Model.Ep2Conv.beVal (bs.take nb)
        let par := bs.getD nb 0
        let t := (a0 * a0 + p - 1) % p * ((d.inv? [qnr % p, 0]).getD d.zero).getD 0 0 % p     -- (a0² − 1)/qnr
        a0 < p && par ≤ 1 && (t == 0 || legendre p t == 1) && !(t == 0 && par == 1)
      else false
    if !expectAccept then some { model := "err", spec := ["err"], tags := ["f2rb.reject"] } else
    let okGot : Bool := match got.splitOn " " with
      | [v, re] => (match v.splitOn "," with
          | [a, b] => (match parseEl d a b with
            | some e =>
              let a0 := e.getD 0 0
              let a1 := e.getD 1 0
              re == "re=" ++ h &&
              (if bs.length == 2 * nb then a0 == Relic.Model.Ep2Conv.beVal (bs.take nb) && a1 == Relic.Model.Ep2Conv.beVal (bs.drop nb)
               else a0 == Relic.Model.Ep2Conv.beVal (bs.take nb) && (a0 * a0 + (p - qnr % p) * (a1 * a1 % p)) % p == 1 % p)
            | none => false)
          | _ => false)
      | _ => false
    some { model := got, spec := [if okGot then got else "<the element this string encodes> re=" ++ h],
           tags := ["f2rb.accept", if bs.length == nb + 1 then "f2rb.packed" else "f2rb.plain"] }
  | "e2pt", [_, _] =>
    if got == "none" then some { model := got, spec := [got], tags := ["pt.none"] } else
    match parsePoint d got with
    | some r => some { model := got, spec := [if onCurve c r && r != none then got else "<point of the twist>"],
                       tags := [if mulNat c r e.n == none then "pt.inside" else "pt.outside"] }
    | none => some { model := got, spec := ["<point>"], tags := ["pt"] }
  | "e2lc", [n, p, a, b] => do
    -- compact ep2_mul_sim_lot: points P, 2P, …, nP, scalars a, a + b, …; specification Σ (a + i b)(i + 1) P, model = the sim_lot model on the list
    let n ← n.toNat?
    let p ← parsePoint d p
    let a ← pI a
    let b ← pI b
    let pts := (List.range n).foldl (fun (acc : List PointX) _ => match acc.getLast? with
      | none => [p]
      | some q => acc ++ [add c q p]) []
    let pks := (pts.zip (List.range n)).map fun (q, i) => (q, a + (i : Int) * b)
    let r := pks.foldl (fun acc (pk : PointX × Int) => add c acc (mul c pk.1 pk.2)) none
    match (mkCtx e w).bind fun mc => modelLot mc pks with
    | some mdl => some { model := mdl, spec := [fmtPoint d r], tags := ["e2lc", if n > 10 then "model.sim_lot.bucket" else "model.sim_lot.naf", "sim_lot.n" ++ toString n] }
    | none => some { model := got, spec := [fmtPoint d r], tags := ["e2lc", "classC.sim_lot"] }
  | _, _ =>
    -- e2l / e2d / e2la / e2da <[j]> <n> <P1> <k1> …
    if op == "e2l" || op == "e2d" || op == "e2la" || op == "e2da" then
      let args := if op.endsWith "a" then args.drop 1 else args
      match args with
      | n :: rest => do
        let n ← n.toNat?
        let dig := op.startsWith "e2d"
        let rec go (i : Nat) (l : List String) (acc : PointX) : Option PointX :=
          match i, l with
          | 0, _ => some acc
          | i + 1, p :: k :: l => do
            let p ← parsePoint d p
            let k ← pI k
            let k := if dig then ((k.natAbs % 2 ^ w : Nat) : Int) else k
            go i l (add c acc (mul c p k))
          | _, _ => none
        let r ← go n rest none
        if dig then
          let rec pairsD (i : Nat) (l : List String) : Option (List (PointX × Nat)) :=
            match i, l with
            | 0, _ => some []
            | i + 1, p :: k :: l => do
              let p ← parsePoint d p
              let k ← pI k
              let t ← pairsD i l
              some ((p, k.natAbs % 2 ^ w) :: t)
            | _, _ => none
          let pks ← pairsD n rest
          let mx := (pks.map fun (pk : PointX × Nat) => Relic.Model.Rec.bitLen pk.2).foldl max 0
          let mdl := fmtPoint d (Relic.Model.EpMul.simDig (xops c) (pks.map (·.1)) (pks.map (·.2)) mx)
          some { model := mdl, spec := [fmtPoint d r], tags := [op, "model.sim_dig"] }
        else
        let rec pairsL (i : Nat) (l : List String) : Option (List (PointX × Int)) :=
          match i, l with
          | 0, _ => some []
          | i + 1, p :: k :: l => do
            let p ← parsePoint d p
            let k ← pI k
            let t ← pairsL i l
            some ((p, k) :: t)
          | _, _ => none
        let pks ← pairsL n rest
        match (mkCtx e w).bind fun mc => modelLot mc pks with
        | some mdl => some { model := mdl, spec := [fmtPoint d r], tags := [op, if n > 10 then "model.sim_lot.bucket" else "model.sim_lot.naf"] ++ (if mdl == "err" then ["model.err"] else []) }
        | none => some { model := got, spec := [fmtPoint d r], tags := [op, "classC.sim_lot" ++ (if n > 10 then ".bucket" else "")] }
      | _ => none
    else none

end Driver.C11
