/- C05 handlers, pairing-based schemes in the discrete-logarithm-oracle formulation (Spec/Sig.lean): G2 public keys arrive as
   scalars "k:<hex>" (the oracle builds [k]g2), so every verification equation is decided in G1; statements about G2
   elements themselves (generated keys, ZSS signatures, malformed keys) are decided with Spec/Fp2Curve.lean. -/
import Driver.Util
import Driver.C03
import Driver.C15
import RelicVerif.Spec.Sig
import RelicVerif.Spec.Fp2Curve

namespace Driver.C05p
open Driver Relic.Spec.Curve Relic.Spec.Sig Relic.Spec.Fp2Curve
open Driver.C15 (parseBytes fmtBytes)

def sha (b : Bytes) : Bytes := Relic.Spec.Sha256.sha256 b

structure Env2 where
  c2 : Curve2
  g2 : Point2
  n : Nat

def parseG2Coords (p : Nat) (s : String) : Option Point2 :=
  if s == "inf" then some none else
  match s.splitOn "," with
  | [a, b, c, d] => do
    let a ← parseHexNat a; let b ← parseHexNat b; let c ← parseHexNat c; let d ← parseHexNat d
    some (some ((a % p, b % p), (c % p, d % p)))
  | _ => none

def env2 (e : C03.Env) : Option Env2 := do
  let p := e.c.p
  let q ← e.kv.lookup "qnr"
  let qi ← q.toInt?
  let beta := (qi % (p : Int)).toNat
  let ta0 ← (e.kv.lookup "ta0").bind parseHexNat; let ta1 ← (e.kv.lookup "ta1").bind parseHexNat
  let tb0 ← (e.kv.lookup "tb0").bind parseHexNat; let tb1 ← (e.kv.lookup "tb1").bind parseHexNat
  let g2 ← (e.kv.lookup "g2").bind (parseG2Coords p)
  some { c2 := { p := p, beta := beta, a := (ta0, ta1), b := (tb0, tb1) }, g2 := g2, n := e.n }

inductive G2Tok where
  | scalar (k : Nat)          -- [k]g2
  | rel (k : Nat)             -- [k]g for the generator g of the same line (Pointcheval–Sanders)
  | raw (pt : Point2)

def parseG2Tok (p : Nat) (s : String) : Option G2Tok :=
  if s == "inf" then some (.raw none)
  else if s.startsWith "k:" then (parseHexNat (s.drop 2).toString).map .scalar
  else if s.startsWith "m:" then (parseHexNat (s.drop 2).toString).map .rel
  else if s.startsWith "raw:" then (parseG2Coords p (s.drop 4).toString).map .raw
  else none

/-- what the specification can say about a list of G2 key components -/
inductive KeyDec where
  | known (ks : List Nat)     -- all are multiples of the generator with these scalars
  | invalid                   -- at least one is not an element of G2 \ {O} (off the twist, outside the subgroup, or the identity)
  | undecided                 -- a valid element whose discrete logarithm is not given

def decideKeys (x : Env2) (toks : List G2Tok) : KeyDec :=
  let bad := toks.any fun t => match t with
    | .raw pt => pt == none || !inSubgroup x.c2 x.n pt
    | _ => false
  if bad then .invalid else
  if toks.all (fun t => match t with | .raw _ => false | _ => true) then
    .known (toks.map fun t => match t with | .scalar k => k | .rel k => k | .raw _ => 0)
  else .undecided

def verdictWith (pre : String) (accept : Bool) (got : String) (tag : String) : Option Verdict :=
  some { model := got, spec := if accept then [pre ++ "v=1"] else [pre ++ "v=0", pre ++ "v=0 err", pre ++ "err"],
         tags := [tag ++ (if accept then ".accept" else ".reject")] }

def undecided (got : String) (tag : String) : Option Verdict :=
  some { model := got, spec := [got], tags := [tag ++ ".undecided"] }

def mustHold (ok : Bool) (got : String) (what : String) (tag : String) : Option Verdict :=
  some { model := got, spec := if ok then [got] else ["<" ++ what ++ ">"], tags := [tag] }

def parseKV (s : String) : List (String × String) :=
  (s.splitOn " ").filterMap fun t => match t.splitOn "=" with
    | [k, v] => some (k, v)
    | _ => none

def kvNat (kv : List (String × String)) (k : String) : Option Nat := (kv.lookup k).bind parseHexNat

def parsePt (p : Nat) (s : String) : Option Point :=
  if s == "inf" then some none else
  match s.splitOn "," with
  | [x, y] => do
    let x ← parseHexNat x
    let y ← parseHexNat y
    some (some (x % p, y % p))
  | _ => none

/-- a key decision turned into a verdict: `f` evaluates the G1 equation from the scalars -/
def byKeys (x : Env2) (toks : List G2Tok) (pre got tag : String) (f : List Nat → Bool) : Option Verdict :=
  match decideKeys x toks with
  | .known ks => verdictWith pre (f ks) got tag
  | .invalid => verdictWith pre false got tag
  | .undecided => undecided got tag

def handle (o : GrpOps Point) (e : C03.Env) (op : String) (args : List String) (got : String) : Option Verdict :=
  match env2 e with
  | none => none
  | some x =>
  let p := e.c.p
  let n := e.n
  let g1 := e.g
  let kv := parseKV got
  let g2mul := fun (k : Nat) => Relic.Spec.Fp2Curve.mulNat x.c2 x.g2 k
  let kvG2 := fun (k : String) => (kv.lookup k).bind (parseG2Coords p)
  let kvPt := fun (k : String) => (kv.lookup k).bind (parsePt p)
  let msgInt := fun (m : Bytes) => os2ip m % n
  match op, args with
  | "g2_check", [tok] => do
    let t ← parseG2Tok p tok
    let ok := (do
      let q ← kvG2 "q"
      match t with
      | .scalar k => some (q == g2mul k && kv.lookup "on" == some "1" && kv.lookup "valid" == some (if k % n == 0 then "0" else "1"))
      | .raw pt =>
        let on := onCurve x.c2 pt
        some (q == pt && kv.lookup "on" == some (if on then "1" else "0") &&
              kv.lookup "valid" == some (if pt != none && inSubgroup x.c2 n pt then "1" else "0"))
      | .rel _ => none).getD false
    mustHold ok got "the element, its curve membership and its subgroup membership" "g2.check"
  -- ------------------------------------------------------------------ BLS
  | "bls_gen", [_] =>
    let ok := (do
      let d ← kvNat kv "d"; let q ← kvG2 "q"
      some (decide (0 < d ∧ d < n) && q == g2mul d)).getD false
    mustHold ok got "d in [1, n-1], Q = [d]g2" "bls.gen"
  | "bls_sig", [_, d] => do
    let d ← parseHexNat d
    let ok := (do
      let s ← kvPt "s"; let hm ← kvPt "hm"
      some (o.pub hm && blsVerifyDL o n hm s d)).getD false
    mustHold ok got "sigma = [d]H(m)" "bls.sig"
  | "bls_ver", [s, _msg, q] => do
    let s ← parsePt p s
    let q ← parseG2Tok p q
    match got.splitOn " " with
    | hmTok :: _ =>
      match (hmTok.dropPrefix? "hm=").bind (fun t => parsePt p t.toString) with
      | some hm => byKeys x [q] (hmTok ++ " ") got "bls" fun ks => o.pub hm && blsVerifyDL o n hm s (ks.headD 0)
      | none => some { model := got, spec := if got.endsWith "err" || (got.splitOn " v=0").length > 1 then [got] else ["<hm=point verdict>"], tags := ["bls.reject"] }
    | _ => none
  -- ------------------------------------------------------------------ Boneh–Boyen, ZSS
  | "bbs_gen", [_] =>
    let ok := (do
      let d ← kvNat kv "d"; let q ← kvG2 "q"
      some (decide (0 < d ∧ d < n) && q == g2mul d)).getD false
    mustHold ok got "d in [1, n-1], Q = [d]g2" "bbs.gen"
  | "bbs_sig", [hash, msg, d] => do
    let msg ← parseBytes msg
    let d ← parseHexNat d
    let m := msgScalar sha n (hash != "0") msg
    if (m + d) % n == 0 then some { model := got, spec := ["err"], tags := ["bbs.sig.refuse"] } else
    let ok := ((kvPt "s").map fun s => bbsVerifyDL o n g1 s m d).getD false
    mustHold ok got "sigma with [m + d]sigma = g1" "bbs.sig"
  | "bbs_ver", [s, hash, msg, q] => do
    let s ← parsePt p s
    let msg ← parseBytes msg
    let q ← parseG2Tok p q
    let m := msgScalar sha n (hash != "0") msg
    byKeys x [q] "" got "bbs" fun ks => bbsVerifyDL o n g1 s m (ks.headD 0)
  | "zss_gen", [_] =>
    let ok := (do
      let d ← kvNat kv "d"; let q ← kvPt "q"
      some (decide (0 < d ∧ d < n) && q == o.smul d g1)).getD false
    mustHold ok got "d in [1, n-1], Q = [d]g1" "zss.gen"
  | "zss_sig", [hash, msg, d] => do
    let msg ← parseBytes msg
    let d ← parseHexNat d
    let m := msgScalar sha n (hash != "0") msg
    if (m + d) % n == 0 then some { model := got, spec := ["err"], tags := ["zss.sig.refuse"] } else
    let t := invMod n ((m + d) % n)
    let ok := ((kvG2 "s").map fun s => s == g2mul t).getD false
    mustHold ok got "sigma = [1/(m + d)]g2" "zss.sig"
  | "zss_ver", [s, hash, msg, q] => do
    let s ← parseG2Tok p s
    let msg ← parseBytes msg
    let q ← parsePt p q
    let m := msgScalar sha n (hash != "0") msg
    byKeys x [s] "" got "zss" fun ks => zssVerifyDL o n g1 q m (ks.headD 0)
  -- ------------------------------------------------------------------ Camenisch–Lysyanskaya
  | gen, _ :: rest =>
    if gen == "cls_gen" || gen == "cli_gen" || gen == "clb_gen" then
      let nz := if gen == "cls_gen" then 0 else if gen == "cli_gen" then 1 else ((rest.headD "1").toNat?.getD 1) - 1
      let ok := (do
        let t ← kvNat kv "t"; let u ← kvNat kv "u"; let X ← kvG2 "X"; let Y ← kvG2 "Y"
        let zs ← (List.range nz).mapM fun i => do
          let v ← kvNat kv ("v" ++ toString i); let Z ← kvG2 ("Z" ++ toString i)
          some (decide (0 < v ∧ v < n) && Z == g2mul v)
        some (decide (0 < t ∧ t < n ∧ 0 < u ∧ u < n) && X == g2mul t && Y == g2mul u && zs.all id)).getD false
      mustHold ok got "secret scalars in [1, n-1] and the public keys their multiples of g2" gen
    else if gen == "pss_gen" || gen == "psb_gen" then
      let l := if gen == "pss_gen" then 1 else (rest.headD "1").toNat?.getD 1
      let ok := (do
        let r ← kvNat kv "r"; let g ← kvG2 "g"; let xx ← kvG2 "x"
        let gm := fun (k : Nat) => Relic.Spec.Fp2Curve.mulNat x.c2 g k
        let ys ← (List.range l).mapM fun i => do
          let s ← kvNat kv ("s" ++ toString i); let y ← kvG2 ("y" ++ toString i)
          some (decide (0 < s ∧ s < n) && y == gm s)
        some (decide (0 < r ∧ r < n) && g != none && inSubgroup x.c2 n g && xx == gm r && ys.all id)).getD false
      mustHold ok got "g in G2 \\ {O}, x = [r]g, y_i = [s_i]g with scalars in [1, n-1]" gen
    else
    match op, args with
    | "cls_sig", [_, msg, xs, ys] => do
      let msg ← parseBytes msg
      let xs ← parseHexNat xs; let ys ← parseHexNat ys
      let ok := (do
        let a ← kvPt "a"; let b ← kvPt "b"; let c ← kvPt "c"
        some (clsVerifyDL o n a b c (msgInt msg) xs ys)).getD false
      mustHold ok got "(a, b, c) with b = [y]a, c = [x](a + [m]b)" "cls.sig"
    | "cls_ver", [a, b, c, msg, X, Y] => do
      let a ← parsePt p a; let b ← parsePt p b; let c ← parsePt p c
      let msg ← parseBytes msg
      let X ← parseG2Tok p X; let Y ← parseG2Tok p Y
      byKeys x [X, Y] "" got "cls" fun ks => clsVerifyDL o n a b c (msgInt msg) (ks.getD 0 0) (ks.getD 1 0)
    | "cli_sig", [_, msg, r, t, u, v] => do
      let msg ← parseBytes msg
      let r ← parseHexNat r; let t ← parseHexNat t; let u ← parseHexNat u; let v ← parseHexNat v
      let ok := (do
        let a ← kvPt "a"; let A ← kvPt "A"; let b ← kvPt "b"; let B ← kvPt "B"; let c ← kvPt "c"
        some (cliVerifyDL o n a A b B c (msgInt msg) r t u v)).getD false
      mustHold ok got "(a, A, b, B, c) satisfying the four verification equations" "cli.sig"
    | "cli_ver", [a, A, b, B, c, msg, r, X, Y, Z] => do
      let a ← parsePt p a; let A ← parsePt p A; let b ← parsePt p b; let B ← parsePt p B; let c ← parsePt p c
      let msg ← parseBytes msg
      let r ← parseHexNat r
      let X ← parseG2Tok p X; let Y ← parseG2Tok p Y; let Z ← parseG2Tok p Z
      byKeys x [X, Y, Z] "" got "cli" fun ks => cliVerifyDL o n a A b B c (msgInt msg) r (ks.getD 0 0) (ks.getD 1 0) (ks.getD 2 0)
    | "clb_sig", _ :: l :: rest => do
      let l ← l.toNat?
      let ms ← (rest.take l).mapM parseBytes
      let t ← parseHexNat (rest.getD l "")
      let u ← parseHexNat (rest.getD (l + 1) "")
      let vs ← ((rest.drop (l + 2)).take (l - 1)).mapM parseHexNat
      let ok := (do
        let a ← kvPt "a"; let b ← kvPt "b"; let c ← kvPt "c"
        let As ← (List.range (l - 1)).mapM fun i => kvPt ("A" ++ toString i)
        let Bs ← (List.range (l - 1)).mapM fun i => kvPt ("B" ++ toString i)
        some (clbVerifyDL o n a b c As Bs (ms.map msgInt) t u vs)).getD false
      mustHold ok got "(a, A_i, b, B_i, c) satisfying the verification equations" "clb.sig"
    | "clb_ver", l :: a :: b :: c :: rest => do
      let l ← l.toNat?
      let a ← parsePt p a; let b ← parsePt p b; let c ← parsePt p c
      let As ← (rest.take (l - 1)).mapM (parsePt p)
      let Bs ← ((rest.drop (l - 1)).take (l - 1)).mapM (parsePt p)
      let ms ← ((rest.drop (2 * (l - 1))).take l).mapM parseBytes
      let keys ← ((rest.drop (2 * (l - 1) + l)).take (2 + (l - 1))).mapM (parseG2Tok p)
      byKeys x keys "" got "clb" fun ks => clbVerifyDL o n a b c As Bs (ms.map msgInt) (ks.getD 0 0) (ks.getD 1 0) (ks.drop 2)
    -- ---------------------------------------------------------------- Pointcheval–Sanders
    | "pss_sig", [_, m, r, s] => do
      let m ← parseHexInt m
      let r ← parseHexNat r; let s ← parseHexNat s
      let ok := (do
        let a ← kvPt "a"; let b ← kvPt "b"
        some (psVerifyDL o n a b [m] r [s])).getD false
      mustHold ok got "(a, b) with a != O, b = [r + m s]a" "pss.sig"
    | "psb_sig", _ :: l :: rest => do
      let l ← l.toNat?
      let ms ← (rest.take l).mapM parseHexInt
      let r ← parseHexNat (rest.getD l "")
      let ss ← ((rest.drop (l + 1)).take l).mapM parseHexNat
      let ok := (do
        let a ← kvPt "a"; let b ← kvPt "b"
        some (psVerifyDL o n a b ms r ss)).getD false
      mustHold ok got "(a, b) with a != O, b = [r + sum m_i s_i]a" "psb.sig"
    | "pss_ver", [a, b, m, g, xk, yk] => do
      let a ← parsePt p a; let b ← parsePt p b
      let m ← parseHexInt m
      let g ← parseG2Tok p g; let xk ← parseG2Tok p xk; let yk ← parseG2Tok p yk
      psDecide x o n a b [m] g xk [yk] got "pss"
    | "psb_ver", a :: b :: l :: rest => do
      let l ← l.toNat?
      let a ← parsePt p a; let b ← parsePt p b
      let ms ← (rest.take l).mapM parseHexInt
      let g ← parseG2Tok p (rest.getD l "")
      let xk ← parseG2Tok p (rest.getD (l + 1) "")
      let yks ← ((rest.drop (l + 2)).take l).mapM (parseG2Tok p)
      psDecide x o n a b ms g xk yks got "psb"
    | _, _ => none
  | _, _ => none
where
  /-- Pointcheval–Sanders keys: g = [gk]g2 (gk ≢ 0), x and yᵢ multiples of g ("m:") — then the equation only involves the
      multipliers; any other combination of valid elements is not decided here -/
  psDecide (x : Env2) (o : GrpOps Point) (n : Nat) (a b : Point) (ms : List Int) (g xk : G2Tok) (yks : List G2Tok)
      (got tag : String) : Option Verdict :=
    match decideKeys x (g :: xk :: yks) with
    | .invalid => verdictWith "" false got tag
    | .undecided => undecided got tag
    | .known _ =>
      match g with
      | .scalar gk =>
        if gk % n == 0 then verdictWith "" false got tag else
        -- x = [r]g is given either relative to g ("m:r") or absolutely ("k:r'" = [r']g2, i.e. r = r'/gk)
        let relOf := fun (t : G2Tok) => match t with
          | .rel k => some (k % n)
          | .scalar k => some (k % n * invMod n (gk % n) % n)
          | .raw _ => none
        match relOf xk, yks.mapM relOf with
        | some r, some ss => verdictWith "" (decide (r ≠ 0) && ss.all (· != 0) && psVerifyDL o n a b ms r ss) got tag
        | _, _ => undecided got tag
      | _ => undecided got tag

end Driver.C05p
