/- C16 handlers: binary fields GF(2^m) and binary curves. Specification: Spec/Gf2.lean (polynomial arithmetic over
   GF(2) modulo the polynomial the running library reports) and Spec/BinCurve.lean (affine group law). -/
import Driver.Util
import RelicVerif.Spec.Gf2
import RelicVerif.Spec.BinCurve
import RelicVerif.Model.BinFast
import RelicVerif.Model.Tnaf
import RelicVerif.Model.Fb
import RelicVerif.Model.FbInv
import RelicVerif.Model.Eb
import RelicVerif.Model.EbMul
import RelicVerif.Model.Rec
import RelicVerif.Model.BnConv

namespace Driver.C16
open Driver Relic.Spec.Gf2 Relic.Spec.BinCurve
open Relic.Model

structure FEnv where
  F : Field
  K : BinFast.FF
  kv : List (String × String)

/-- doubling chains of the base points seen so far (pure memoisation of `BinFast.dblChain`) -/
abbrev Cache := List (Point × List Point)

structure EEnv where
  c : Curve
  g : Point
  r : Nat
  h : Nat
  kbltz : Bool
  fc : BinFast.FC
  kv : List (String × String)

def kvOf (got : String) : List (String × String) :=
  (got.splitOn " ").filterMap fun t => match t.splitOn "=" with
    | [k, v] => some (k, v)
    | _ => none

def parseFEnv (got : String) : Option FEnv := do
  let kv := kvOf got
  let m ← (← kv.lookup "m").toNat?
  let f ← parseHexNat (← kv.lookup "f")
  let F : Field := { m := m, f := f }
  some { F := F, K := BinFast.FF.ofField F, kv := kv }

/-- irreducibility of f (Rabin / Ben-Or for prime m is enough here: m = 283, 233 are prime): z^(2^m) = z mod f and
    f has no linear factor; for general m the check `gcd(z^(2^(m/q)) - z, f) = 1` is replaced by the weaker statement below,
    recorded in the trusted base -/
def checkFParam (e : FEnv) : List String :=
  let F := e.F
  let lk := fun (k : String) => ((e.kv.lookup k).bind String.toInt?).getD (-2)
  let pa := lk "pa"; let pb := lk "pb"; let pc := lk "pc"
  let fExp : Nat := if pb = 0 ∧ pc = 0 then (1 <<< F.m) ^^^ (1 <<< pa.toNat) ^^^ 1
    else (1 <<< F.m) ^^^ (1 <<< pa.toNat) ^^^ (1 <<< pb.toNat) ^^^ (1 <<< pc.toNat) ^^^ 1
  let srz := ((e.kv.lookup "srz").bind parseHexNat).getD 0
  (if F.wellFormed then [] else ["f: degree != m or even constant term"]) ++
  (if pa > 0 ∧ F.f ≠ fExp then ["f differs from the reported reduction exponents"] else []) ++
  (if e.K.sqrN F.m 2 = 2 then [] else ["z^(2^m) != z mod f (f not irreducible)"]) ++
  (if e.K.sqr srz = 2 then [] else ["srz^2 != z"])

def parseEEnv (got : String) : Option EEnv := do
  let kv := kvOf got
  let m ← (← kv.lookup "m").toNat?
  let f ← parseHexNat (← kv.lookup "f")
  let a ← parseHexNat (← kv.lookup "a")
  let b ← parseHexNat (← kv.lookup "b")
  let gx ← parseHexNat (← kv.lookup "gx")
  let gy ← parseHexNat (← kv.lookup "gy")
  let r ← parseHexNat (← kv.lookup "r")
  let h ← parseHexNat (← kv.lookup "h")
  let c : Curve := { F := { m := m, f := f }, a := a, b := b }
  some { c := c, g := some (gx, gy), r := r, h := h, kbltz := kv.lookup "kbltz" == some "1", fc := BinFast.FC.ofCurve c, kv := kv }

def checkEParam (e : EEnv) : List String :=
  let F := e.c.F
  (if F.wellFormed then [] else ["f: degree != m or even constant term"]) ++
  (if F.isElem e.c.a ∧ F.isElem e.c.b ∧ e.c.b ≠ 0 then [] else ["a, b not field elements or b = 0 (singular)"]) ++
  (if BinFast.onCurve e.fc e.g ∧ e.g ≠ none then [] else ["generator not on curve"]) ++
  (if BinFast.mul e.fc e.g e.r == none then [] else ["r*G != O"]) ++
  (if e.kbltz == (e.c.b == 1 && e.c.a ≤ 1) then [] else ["Koblitz flag does not match a in {0,1}, b = 1"]) ++
  -- Hasse: |h·r - (2^m + 1)| ≤ 2·2^(m/2)
  (let n := e.h * e.r; let q := 2 ^ F.m + 1; let d := if n ≥ q then n - q else q - n
   if d * d ≤ 4 * 2 ^ F.m then [] else ["h*r outside the Hasse interval"])

def fmtEl (F : Field) (v : Nat) : String := natToHex v ++ (if bitLen v > F.m then " DEG>=M" else "")

def parsePoint (s : String) : Option Point :=
  match s.splitOn "," with
  | ["inf"] => some none
  | ["inf", _, _, "P"] => some none
  | x :: y :: _ => do
    let x ← parseHexNat x
    let y ← parseHexNat y
    some (some (x, y))
  | _ => none

def fmtPoint : Point → String
  | none => "inf"
  | some (x, y) => natToHex x ++ "," ++ natToHex y

def optHex : Option Nat → String
  | some v => natToHex v
  | none => "none"

def cls (s : String) : Option Verdict := some { model := s, spec := [s] }
/-- spec as a predicate on the implementation's answer -/
def pred (got : String) (ok : Bool) (descr : String) (tags : List String := []) : Option Verdict :=
  some { model := got, spec := if ok then [got] else [descr], tags := tags }

/-- verdict with separate model and specification columns -/
def ms (model spec : String) (tags : List String := []) : Option Verdict :=
  some { model := model, spec := [spec], tags := tags }
/-- model column given, specification as a predicate on the implementation's answer -/
def mpred (model got : String) (ok : Bool) (descr : String) (tags : List String := []) : Option Verdict :=
  some { model := model, spec := if ok then [got] else [descr], tags := tags }

/-- the digit structure of the C code: w-bit digits, n = ⌈m/w⌉ of them; reduction exponents as fb_poly_get_rdc reports them -/
structure Dig where
  w : Nat
  n : Nat
  exps : List Nat
  quick : Bool      -- the hypotheses of `rdcQuick_eq` hold (e + w ≤ m, m not a multiple of w)

def digOf (e : FEnv) (w : Nat) : Dig :=
  let m := e.F.m
  let lk := fun (k : String) => ((e.kv.lookup k).bind String.toNat?).getD 0
  let pa := lk "pa"; let pb := lk "pb"; let pc := lk "pc"
  let exps := if pb = 0 then [pa, 0] else [pa, pb, pc, 0]
  { w := w, n := (m + w - 1) / w, exps := exps, quick := pa > 0 && m % w ≠ 0 && exps.all (· + w ≤ m) }

def handleField (e : FEnv) (w : Nat) (op : String) (args : List String) (got : String) : Option Verdict :=
  let F := e.F
  let K := e.K
  let el := fmtEl F
  let pI := fun (s : String) => (parseBn w s).map (Relic.Model.Bn.toInt (2 ^ w))
  let D := digOf e w
  -- fb_rdcn_low as modelled (falls back to the specification's remainder outside the hypotheses of the model)
  let rdcQ := fun (t : Nat) => if D.quick then Relic.Model.Fb.rdcQuick D.w D.n F.m D.exps t else BinFast.pmodS F.m K.exps t
  let lodah := Relic.Model.Fb.mulLodah D.w D.n
  match op, args with
  | "fbb", [o, al, a, b] => do
    let a ← parseHexNat a
    let b0 ← parseHexNat b
    let b := if al == "3" || al == "4" then a else b0
    let dg := b0 % 2 ^ w
    if o == "add" then cls (el (a ^^^ b))
    else if o == "add_dig" then cls (el (a ^^^ dg))
    else if o == "mul_dig" then cls (el (K.mul a dg))
    else if o == "mul" || o == "mul_lodah" || o == "mul_integ" then
      ms (el (rdcQ (lodah a b))) (el (K.mul a b)) ["model.lodah"]
    else if o == "mul_karat" then
      ms (el (rdcQ (Relic.Model.Fb.mulKarat (Relic.Model.Fb.mulLodah D.w (D.n - D.n / 2)) D.w D.n a b))) (el (K.mul a b)) ["model.karat"]
    else if o == "mul_basic" then
      ms (el (Relic.Model.Fb.mulBasic F rdcQ a b)) (el (K.mul a b)) ["model.basic"]
    else if o == "cmp" then cls (if a == b then "r=0" else "r=2")
    else if o == "cmp_dig" then cls (if a == dg then "r=0" else "r=2")
    else none
  | "fbu", [o, _, a] => do
    let a ← parseHexNat a
    if o == "sqr" || o == "sqr_quick" || o == "sqr_integ" then
      ms (el (rdcQ (Relic.Model.Fb.sqrTable (D.w * D.n / 4) a))) (el (K.sqr a)) ["model.sqrtab"]
    else if o.startsWith "sqr" then cls (el (K.sqr a))
    else if o.startsWith "inv" then
      if a = 0 then cls "err"
      else
        -- defining equation a·c = 1 (the inverse is unique)
        let c := (parseHexNat got).getD 0
        let nops : Relic.Model.Fb.MOps Nat := ⟨1, K.mul⟩
        let chain := (((e.kv.lookup "chain").getD "").splitOn ":").drop 1 |>.filterMap String.toNat?
        let mdl :=
          if o == "inv_basic" && F.m % 2 = 1 then natToHex (Relic.Model.Fb.invBasicChain nops F.m a)
          else if o == "inv_itoht" && F.m % 2 = 1 && chain.length > 1 then natToHex (Relic.Model.Fb.invItohtChain nops chain a).1
          else if o == "inv_binar" then optHex (Relic.Model.FbInv.invBinar D.w F a)
          else if o == "inv_almos" then optHex (Relic.Model.FbInv.invAlmos D.w F a)
          else if o == "inv_exgcd" then optHex (Relic.Model.FbInv.invExgcd F a)
          else if o == "inv_bruch" then optHex (Relic.Model.FbInv.invBruch D.w D.n F a)
          else if o == "inv_ctaia" then optHex (Relic.Model.FbInv.invCtaia D.w D.n F a)
          else natToHex (K.inv a)
        mpred mdl got (got != "err" && F.isElem c && K.mul a c == 1 && got == natToHex c) ("<c with a*c = 1> e.g. " ++ natToHex (K.inv a))
          (if o == "inv_basic" || o == "inv_itoht" then ["model.chain"]
           else if o == "inv_bruch" || o == "inv_ctaia" then ["model.fixedpass"]
           else if o == "inv_binar" || o == "inv_almos" || o == "inv_exgcd" then
             ["model.euclid", "euclid.deg" ++ (if bitLen a == 1 then "0" else if bitLen a == F.m then "top" else if a % 2 == 0 then "even" else "odd")]
           else [])
    else if o.startsWith "srt" then
      let c := (parseHexNat got).getD 0
      let srz := ((e.kv.lookup "srz").bind parseHexNat).getD 0
      let mdl := if o == "srt_basic" then natToHex (K.sqrt a) else natToHex (Relic.Model.Fb.srtSplit K.mul srz F.m a)
      mpred mdl got (F.isElem c && K.sqr c == a && got == natToHex c) ("<r with r^2 = a> e.g. " ++ natToHex (K.sqrt a)) ["model.srt"]
    else if o.startsWith "trc" then
      let ts := ["ta", "tb", "tc"].filterMap fun k => ((e.kv.lookup k).bind String.toInt?).bind fun (v : Int) => if v ≥ 0 then some v.toNat else none
      let mdl := if o == "trc_basic" then K.trace a else Relic.Model.Fb.trcBits a ts
      ms ("r=" ++ toString mdl) ("r=" ++ toString (K.trace a)) ["model.trc"]
    else if o.startsWith "slv" then
      -- c² + c = a is solvable iff Tr(a) = 0; the documented domain of fb_slv is Tr(a) = 0
      let c := (parseHexNat got).getD 0
      -- the code returns the root of trace zero: the half-trace, plus 1 when its trace is 1
      let h := K.halfTrace a
      let mdl := natToHex (if K.trace h = 1 then h ^^^ 1 else h)
      if K.trace a = 0 then
        mpred mdl got (F.isElem c && (K.sqr c ^^^ c) == a && got == natToHex c) ("<c with c^2 + c = a> e.g. " ++ natToHex (K.halfTrace a)) ["slv.tr0"]
      else
        -- outside the domain: the half-trace satisfies c² + c = a + 1; only canonical form is required
        mpred mdl got (F.isElem c && got == natToHex c) "<a field element>" ["slv.tr1"]
    else if o == "is_zero" then cls ("r=" ++ (if a = 0 then "1" else "0"))
    else if o == "bits" then cls ("r=" ++ toString (bitLen a))
    else none
  | "fb_rdc", [v, t] => do
    let t ← parseHexNat t
    if v == "rdc1" then cls (el (BinFast.pmodS F.m K.exps (t % 2 ^ (w * (F.m / w + 2)))))
    else if v == "basic" then cls (el (BinFast.pmodS F.m K.exps t))
    else ms (el (rdcQ t)) (el (BinFast.pmodS F.m K.exps t)) ["model.rdcquick"]
  | "fb_muln", [v, a, b] => do
    let a ← parseHexNat a
    let b ← parseHexNat b
    if v == "muln" || v == "muld" then ms (natToHex (lodah a b)) (natToHex (BinFast.clmulW a b)) ["model.lodah"]
    else if v == "sqrl" then ms (natToHex (Relic.Model.Fb.sqrTable (D.w * D.n / 4) a)) (natToHex (BinFast.clmulW a a)) ["model.sqrtab"]
    else if v == "sqrn" then cls (natToHex (BinFast.clmulW a a))
    else if v == "mul1" then cls (natToHex (BinFast.clmulW a (b % 2 ^ w)))
    else none
  | "fb_itr", [v, _, a, b] => do
    let a ← parseHexNat a
    let b ← b.toInt?
    if v != "basic" && b ≥ 0 then
      ms (el (Relic.Model.Fb.itrTable (fun i u => K.sqrN b.toNat (u <<< (4 * i))) (D.w * D.n / 4) a)) (el (K.itr a b)) ["model.itrtab"]
    else cls (el (K.itr a b))
  | "fb_exp", [_, _, a, k] => do
    let a ← parseHexNat a
    let k ← pI k
    if a = 0 ∧ k < 0 then cls "err" else cls (el (K.exp a k))
  | "fb_wstr", [len, a, radix] => do
    -- C07: text form of a binary-field element = positional notation of its bit vector in a radix 2, 4, …, 64; the advertised
    -- size is the text length + 1 (NUL; 2 for zero); a shorter buffer or any other radix is reported
    let len ← len.toNat?
    let a ← parseHexNat a
    let radix ← radix.toNat?
    let txt := if a = 0 then "0" else
      let rec go (fuel n : Nat) (acc : List Char) : List Char :=
        match fuel with
        | 0 => acc
        | f + 1 => if n = 0 then acc else go f (n / radix) (convChar (n % radix) :: acc)
      String.ofList (go (Nat.log2 a + 2) a [])
    let valid := [2, 4, 8, 16, 32, 64].contains radix
    cls (if !valid then "err size=err"
         else (if len < txt.length + 1 then "err" else "\"" ++ txt ++ "\"") ++ " size=" ++ toString (txt.length + 1))
  | "fb_rstr", [radix, s] => do
    -- decode accepts exactly the canonical numerals of field elements (digits below the radix, value below z^m, no sign): anything it
    -- accepts must re-encode to the input; upper/lower case is the library's documented digit alphabet
    let radix ← radix.toNat?
    let s := if s == "\"\"" then "" else s
    let valid := [2, 4, 8, 16, 32, 64].contains radix
    -- a character that is not a digit of the radix ends the numeral (the contract of bn_read_str, which parses it): the value is that of
    -- the longest valid prefix
    let digs := s.toList.map fun c => (charVal (if radix < 36 then c.toUpper else c)).bind fun i => if i < radix then some i else none
    let pre := digs.takeWhile Option.isSome
    let n := pre.foldl (fun acc d => acc * radix + d.getD 0) 0
    if !valid || s.isEmpty || s.toList.head? == some '-' then cls "err"
    else if bitLen n > F.m then cls "err" else ms (el n) (el n) [if pre.length < digs.length then "rstr.prefix" else "rstr.full"]
  | "fb_wbin", [len, a] => do
    let len ← len.toNat?
    let a ← parseHexNat a
    let nb := (F.m + 7) / 8
    cls (if len ≠ nb then "err" else natToHexPad a (2 * nb))
  | "fb_rbin", [h] =>
    let nb := (F.m + 7) / 8
    let bytes := if h == "." then 0 else h.length / 2
    if bytes ≠ nb then cls "err" else do
      let v ← parseHexNat h
      -- a byte string with coefficients at or above z^m does not denote a field element
      -- (C07: decoding yields a reduced element or fails; fb_read_bin rejects them since fix 350109e)
      if bitLen v > F.m then ms "err" "err" ["rbin.highbits"]
      else cls (el v)
  | "fb_invsim", _ :: n :: rest => do
    let n ← n.toNat?
    let vals ← (rest.take n).mapM parseHexNat
    let mdl := match Relic.Model.FbInv.invSim K.mul (fun x => if x = 0 then none else some (K.inv x)) vals with
      | none => "err"
      | some out => String.intercalate ";" (out.map el)
    let spec := if vals.any (· == 0) then "err" else String.intercalate ";" (vals.map fun a => el (K.inv a))
    ms mdl spec ["model.invsim", "invsim.n" ++ toString (min n 4), if vals.any (· == 0) then "invsim.zero" else "invsim.nz"]
  | "fbq", o :: al :: a0 :: a1 :: rest => do
    let a0 ← parseHexNat a0
    let a1 ← parseHexNat a1
    let a : Ext.El := (a0, a1)
    let b : Ext.El ← match rest with
      | [b0, b1] => do some ((← parseHexNat b0), (← parseHexNat b1))
      | _ => some (0, 0)
    let b := if al == "3" || al == "4" then a else b
    let fmt := fun (c : Ext.El) => el c.1 ++ "," ++ el c.2
    let parseEl := fun (s : String) => match s.splitOn "," with
      | [x, y] => do some ((← parseHexNat x), (← parseHexNat y))
      | _ => (none : Option Ext.El)
    if o == "mul" then cls (fmt (K.mul2 a b))
    else if o == "add" then cls (fmt (Ext.add F a b))
    else if o == "sqr" then cls (fmt (K.sqr2 a))
    else if o == "mul_nor" then cls (fmt (K.mul2 a (0, 1)))
    else if o == "inv" then
      if a == (0, 0) then cls "err" else
      match parseEl got with
      | some c => pred got (F.isElem c.1 && F.isElem c.2 && K.mul2 a c == Ext.one && got == fmt c) "<c with a*c = 1>"
      | none => pred got false "<c with a*c = 1>"
    else if o == "slv" then
      match parseEl got with
      | some c =>
        if K.trace2 a == (0, 0) then
          pred got (F.isElem c.1 && F.isElem c.2 && Ext.add F (K.sqr2 c) c == a && got == fmt c) "<c with c^2 + c = a>" ["slv2.tr0"]
        else pred got (F.isElem c.1 && F.isElem c.2 && got == fmt c) "<an element>" ["slv2.tr1"]
      | none => pred got false "<c with c^2 + c = a>"
    else none
  | _, _ => none

/-- number of bytes of a field element -/
def nBytes (F : Field) : Nat := (F.m + 7) / 8

/-! the point formulas of Model/Eb.lean over GF(2^m) on natural numbers -/

def natBOps (K : BinFast.FF) : Relic.Model.Eb.BOps Nat :=
  { zero := 0, one := 1, add := (· ^^^ ·), mul := K.mul, sqr := K.sqr, inv := K.inv, isZero := (· == 0),
    slv := fun a => let h := K.halfTrace a; if K.trace h = 1 then h ^^^ 1 else h,
    srt := K.sqrt, trc := fun a => K.trace a == 1 }

def optOf (s : Option String) : Relic.Model.Eb.Opt :=
  match s with
  | some "0" => .zero
  | some "1" => .one
  | some "4" => .tiny
  | _ => .huge

/-- the operand as the C function receives it -/
def parseRep (K : BinFast.FF) (s : String) : Option (Relic.Model.Eb.Pt Nat) :=
  match s.splitOn "," with
  | ["inf"] => some ⟨0, 0, 0, .basic⟩
  | ["inf", x, y, "P"] => do some ⟨← parseHexNat x, ← parseHexNat y, 0, .projc⟩
  | [x, y] => do some ⟨← parseHexNat x, ← parseHexNat y, 1, .basic⟩
  | [x, y, z, "P"] => do
    let x ← parseHexNat x
    let y ← parseHexNat y
    let z ← parseHexNat z
    some ⟨K.mul x z, K.mul y (K.sqr z), z, .projc⟩
  | [x, y, "H"] => do
    let x ← parseHexNat x
    let y ← parseHexNat y
    some ⟨x, x ^^^ K.mul y (K.inv x), 1, .halve⟩
  | _ => none

/-- eb_out of the model's result -/
def outRep (K : BinFast.FF) (r : Relic.Model.Eb.Pt Nat) : String :=
  if r.z == 0 then "inf" else
  let n := Relic.Model.Eb.norm (natBOps K) r
  natToHex n.x ++ "," ++ natToHex n.y ++ (if r.coord == .basic && r.z != 1 then " BASIC-WITH-Z!=1" else "")

def handleCurve (e : EEnv) (cache : Cache) (w : Nat) (op : String) (args : List String) (got : String) : Option Verdict :=
  let cS := e.c
  let c := e.fc
  let F := cS.F
  let K := c.K
  let mulC := fun (p : Point) (k : Int) => BinFast.mulWith c (cache.lookup p) p k
  let pI := fun (s : String) => (parseBn w s).map (Relic.Model.Bn.toInt (2 ^ w))
  match op, args with
  | "ebb", [o, al, ps, qs] => do
    let p ← parsePoint ps
    let q0 ← parsePoint qs
    let same := al == "3" || al == "4"
    let q := if same then p else q0
    -- model column: the formulas of Model/Eb.lean on the presented representations
    let ops := natBOps K
    let cv : Relic.Model.Eb.CurveB Nat := { a := c.a, b := c.b, optA := optOf (e.kv.lookup "opta") }
    let pr ← parseRep K ps
    let qr ← parseRep K (if same then ps else qs)
    if o == "add" || o == "add_projc" then ms (outRep K (Relic.Model.Eb.addProjc ops cv pr qr)) (fmtPoint (BinFast.add c p q)) ["model." ++ o]
    else if o == "add_basic" then
      ms (outRep K (Relic.Model.Eb.addBasic ops cv pr qr)) (fmtPoint (BinFast.add c p q)) ["model." ++ o]
    else if o == "sub" || o == "sub_projc" then
      ms (outRep K (Relic.Model.Eb.subProjc ops cv same pr qr)) (fmtPoint (BinFast.add c p (BinFast.neg q))) ["model." ++ o]
    else if o == "sub_basic" then
      ms (outRep K (Relic.Model.Eb.subBasic ops cv same pr qr)) (fmtPoint (BinFast.add c p (BinFast.neg q))) ["model." ++ o]
    else if o == "cmp" then cls (if p == q then "r=0" else "r=2")
    else none
  | "ebu", [o, al, ps] => do
    let p ← parsePoint ps
    let ops := natBOps K
    let cv : Relic.Model.Eb.CurveB Nat := { a := c.a, b := c.b, optA := optOf (e.kv.lookup "opta") }
    let prO := parseRep K ps
    let pr := prO.getD ⟨0, 0, 0, .basic⟩
    if o == "dbl" || o == "dbl_projc" then ms (outRep K (Relic.Model.Eb.dblProjc ops cv pr)) (fmtPoint (BinFast.dbl c p)) ["model." ++ o]
    else if o == "dbl_basic" then
      ms (outRep K (Relic.Model.Eb.dblBasic ops cv pr)) (fmtPoint (BinFast.dbl c p)) ["model." ++ o]
    else if o == "neg" || o == "neg_projc" then ms (outRep K (Relic.Model.Eb.negProjc ops pr)) (fmtPoint (BinFast.neg p)) ["model." ++ o]
    else if o == "neg_basic" then ms (outRep K (Relic.Model.Eb.negBasic ops pr)) (fmtPoint (BinFast.neg p)) ["model." ++ o]
    else if o == "norm" then
      let r := Relic.Model.Eb.norm ops pr
      ms (if r.z == 0 then "inf" else natToHex r.x ++ "," ++ natToHex r.y ++ (if r.z != 1 then " BASIC-WITH-Z!=1" else "")) (fmtPoint p) ["model.norm"]
    else if o == "frb" then ms (outRep K (Relic.Model.Eb.frb ops pr)) (fmtPoint (BinFast.frb c p)) ["model.frb"]
    else if o == "on_curve" then cls ("r=" ++ (if BinFast.onCurve c p then "1" else "0"))
    else if o == "is_infty" then cls ("r=" ++ (if p == none then "1" else "0"))
    else if o == "hlv" then
      -- any Q with 2Q = P; solvable iff P ∈ 2E (for P = (x, y): Tr(x + a) = 0)
      let q := (got.splitOn " ").headD ""
      match p, parsePoint q with
      | some (x, _), some Q =>
        if K.trace (x ^^^ c.a) = 0 then
          mpred (outRep K (Relic.Model.Eb.hlv ops cv pr) ++ " coord=3") got
            (BinFast.onCurve c Q && BinFast.dbl c Q == p && got == fmtPoint Q ++ " coord=3") "<Q on the curve with 2Q = P, lambda representation>" ["hlv.in2E", "model.hlv"]
        else pred got true "" ["hlv.notin2E"]
      | none, some Q =>
        -- the representation flag of an identity result is immaterial
        let hr := Relic.Model.Eb.hlv ops cv pr
        mpred (outRep K hr ++ (if hr.z == 0 then " coord=1" else " coord=3")) got
          (BinFast.onCurve c Q && BinFast.dbl c Q == none && (got == fmtPoint Q ++ " coord=3" || (Q == none && got.startsWith "inf")))
          "<Q with 2Q = O>" ["hlv.inf", "model.hlv"]
      | _, none => pred got false "<Q on the curve with 2Q = P>"
    else if o == "pck" then
      match p with
      | some (x, y) =>
        if x = 0 then pred got (got == "0,0") "0,0 (SEC 1: the compressed bit of a point with x = 0 is 0)" ["pck.x0"]
        else cls (natToHex x ++ "," ++ natToHex (K.mul y (K.inv x) % 2))
      | none => pred got true "" ["pck.inf"]
    else if o == "upk" then
      match p with
      | some (x, yb) =>
        if x = 0 then pred got (got == fmtPoint (some (0, K.sqrt c.b))) "(0, sqrt b)" ["upk.x0"]
        else
          let rhs := K.mul (K.sqr x) x ^^^ K.mul c.a (K.sqr x) ^^^ c.b
          let t := K.mul rhs (K.inv (K.sqr x))
          if K.trace t = 0 then
            match parsePoint got with
            | some (some (x', y')) =>
              pred got (x' == x && BinFast.onCurve c (some (x', y')) && K.mul y' (K.inv x) % 2 == yb % 2 && got == fmtPoint (some (x', y')))
                "<the point with this x whose y/x has the given low bit>"
            | _ => pred got false "<the point with this x whose y/x has the given low bit>"
          else cls "r=0"
      | none => pred got true "" ["upk.inf"]
    else none
  | "ebm", [v, _, ptk, k] => do
    let p0 ← parsePoint ptk
    let k ← pI k
    let p := if v == "gen" then e.g else p0
    let k := if v == "dig" then ((k.natAbs % 2 ^ w : Nat) : Int) else k
    let spec := fmtPoint (mulC p k)
    -- model column: the loops of Model/MulAlg.lean, Model/EbMul.lean with the recodings of Model/Rec.lean, Model/Tnaf.lean over
    -- the affine group law (every routine normalises its operand or works in coordinates that accept it)
    let go : Relic.Model.MulAlg.Ops Point := ⟨none, BinFast.add c, BinFast.neg⟩
    let frbP := BinFast.frb c
    let u : Int := if c.a == 0 then -1 else 1
    let kn := k.natAbs
    let sgn := fun (r : Point) => if k < 0 then BinFast.neg r else r
    let m := F.m
    let rbits := bitLen e.r
    let width := ((e.kv.lookup "width").bind String.toNat?).getD 4
    let depth := ((e.kv.lookup "depth").bind String.toNat?).getD 5
    let trivial := k == 0 || p == none
    -- the Koblitz routines reduce |k| modulo the group order h·r, lodah and the fixed-base tables modulo r
    let kG := kn % (e.h * e.r)
    let kR := kn % e.r
    let model : Option String :=
      if !(width == 4 && depth == 5) then none
      else if v == "basic" then
        if trivial then some "inf" else
        (Relic.Model.Rec.recNaf (bitLen kn + 1) kn 2).map fun ds => fmtPoint (sgn (Relic.Model.MulAlg.mulSigned go [p] none ds))
      else if v == "lwnaf" || v == "mul" || v == "fix_lwnaf" then
        let wd := if v == "fix_lwnaf" then depth else width
        if v != "fix_lwnaf" && trivial then some "inf"
        else if k == 0 then some "inf"
        else if e.kbltz then
          match Relic.Model.Tnaf.recTnaf (m + 8) kG u m wd with
          | none => some "err"
          | some ds =>
            if ds.length > m + 8 then none
            else
              let tab := if wd == 4 then Relic.Model.EbMul.tabKbltz4 go frbP u p else Relic.Model.EbMul.tabKbltz5 go frbP u p
              some (fmtPoint (sgn (Relic.Model.EbMul.mulTnaf go frbP tab none ds)))
        else
          match Relic.Model.Rec.recNaf (m + 1) kn wd with
          | none => some "err"
          | some ds => some (fmtPoint (sgn (Relic.Model.MulAlg.mulSigned go (Relic.Model.MulAlg.tabOdd go p (2 ^ (wd - 2))) none ds)))
      else if v == "rwnaf" then
        if trivial then some "inf"
        else if e.kbltz then
          match Relic.Model.Tnaf.recTnaf (m + 8) kG u m 4 with
          | none => some "err"
          | some ds => if ds.length > m + 8 then none else some (fmtPoint (sgn (Relic.Model.EbMul.mulTnafRtl4 go frbP u p ds)))
        else
          match Relic.Model.Rec.recNaf (m + 1) kn 4 with
          | none => some "err"
          | some ds => some (fmtPoint (sgn (Relic.Model.EbMul.mulRnaf4 go p ds)))
      else if v == "lodah" then
        if trivial then some "inf"
        else
          let t := kR + e.r
          let l := if t.testBit rbits then t else t + e.r
          let bits := (List.range rbits).reverse.map fun i => l.testBit i
          some (fmtPoint (sgn (Relic.Model.MulAlg.mulLadder go p bits)))
      else if v == "fix_basic" then
        if k == 0 then some "inf" else
        some (fmtPoint (sgn (Relic.Model.MulAlg.mulFixBasic go (Relic.Model.MulAlg.tabPow2 go p rbits) none kR)))
      else if v == "fix_combs" || v == "fix_" || v == "gen" then
        if k == 0 then some "inf" else
        let l := (rbits + depth - 1) / depth
        some (fmtPoint (sgn (Relic.Model.EbMul.mulCombs go (Relic.Model.EbMul.tabCombs go p l depth) kR l depth)))
      else none
    match model with
    | some mdl => ms mdl spec ["model.mul." ++ v]
    | none => cls spec
  | "ebs", [v, p, k, q, m] => do
    let p0 ← parsePoint p
    let q ← parsePoint q
    let k ← pI k
    let m ← pI m
    let v := (v.splitOn ".").headD v          -- suffix .p / .q: the result object is an operand; the value is the same
    let p := if v == "gen" then e.g else p0
    cls (fmtPoint (BinFast.add c (mulC p k) (mulC q m)))
  | "eb_nsim", _ :: n :: rest => do
    let n ← n.toNat?
    let pts ← (rest.take n).mapM parsePoint
    cls (String.intercalate ";" (pts.map fmtPoint))
  | "eb_wbin", [len, pack, p] => do
    let len ← len.toNat?
    let p ← parsePoint p
    let nb := nBytes F
    let pad := fun (body : String) (used : Nat) => body ++ (if len > used then natToHexPad 0 (2 * (len - used)) else "")
    let size := match p with
      | none => 1
      | some _ => if pack == "1" then nb + 1 else 2 * nb + 1
    let sz := " size=" ++ toString size
    match p with
    | none => cls ((if len < 1 then "err" else natToHexPad 0 (2 * len)) ++ sz)
    | some (x, y) =>
      if pack == "1" then
        if len < nb + 1 then cls ("err" ++ sz)
        else if x = 0 then pred got (got == pad ("02" ++ natToHexPad 0 (2 * nb)) (nb + 1) ++ sz) "02 00..00 (SEC 1)" ["wbin.x0"]
        else cls (pad (natToHexPad (2 + K.mul y (K.inv x) % 2) 2 ++ natToHexPad x (2 * nb)) (nb + 1) ++ sz)
      else
        if len < 2 * nb + 1 then cls ("err" ++ sz)
        else cls (pad ("04" ++ natToHexPad x (2 * nb) ++ natToHexPad y (2 * nb)) (2 * nb + 1) ++ sz)
  | "eb_rbin", [h] => do
    let nb := nBytes F
    let bytes := if h == "." then 0 else h.length / 2
    let tag := ((h.take 2).toString |> parseHexNat).getD 256
    let field := fun (i : Nat) => parseHexNat ((h.drop (2 + 2 * nb * i)).take (2 * nb)).toString
    if bytes = 1 then cls (if tag = 0 then "inf" else "err")
    else if bytes = nb + 1 then
      let x ← field 0
      if !(F.isElem x) ∨ (tag ≠ 2 ∧ tag ≠ 3) then cls "err"
      else if x = 0 then pred got (got == fmtPoint (some (0, K.sqrt c.b))) "(0, sqrt b) (SEC 1)" ["rbin.x0"]
      else
        let rhs := K.mul (K.sqr x) x ^^^ K.mul c.a (K.sqr x) ^^^ c.b
        let t := K.mul rhs (K.inv (K.sqr x))
        if K.trace t ≠ 0 then cls "err"
        else match parsePoint got with
          | some (some (x', y')) =>
            pred got (x' == x && BinFast.onCurve c (some (x', y')) && K.mul y' (K.inv x) % 2 == tag - 2 && got == fmtPoint (some (x', y')))
              "<the point with this x whose y/x has the tagged low bit>"
          | _ => pred got false "<the point with this x whose y/x has the tagged low bit>"
    else if bytes = 2 * nb + 1 then
      let x ← field 0
      let y ← field 1
      if tag ≠ 4 ∨ !(BinFast.onCurve c (some (x, y))) then cls "err" else cls (fmtPoint (some (x, y)))
    else cls "err"
  | _, _ => none

/-- memoise the doubling chains of the base points of a multiplication line (at most 48 points are kept) -/
def updCache (ee : Option EEnv) (cache : Cache) (op : String) (args : List String) : Cache :=
  match ee with
  | none => cache
  | some e =>
    let toks := match op, args with
      | "ebm", [v, _, p, _] => if v == "gen" then [] else [p]
      | "ebs", [v, p, _, q, _] => if (v.splitOn ".").headD v == "gen" then [q] else [p, q]
      | _, _ => []
    let pts := (toks.filterMap parsePoint) ++ (if op == "ebm" || op == "ebs" then [e.g] else [])
    pts.foldl (fun cache p =>
      if p == none || (cache.lookup p).isSome then cache
      else ((p, BinFast.dblChain e.fc (e.c.F.m + 12) p) :: cache).take 48) cache

/-- τ-adic recodings (context-free): the model column is the digit string of Model/Tnaf.lean, the specification column
    the defining property: digits zero or odd below 2^(w-1), Σ α(d_i) τ^i ≡ |k| modulo τ^m - 1 -/
def handleTnaf (w : Nat) (op : String) (args : List String) (got : String) : Option Verdict :=
  match op, args with
  | "bn_tnaf", [kind, u, m, wd, cap, k] => do
    let u ← u.toInt?
    let m ← m.toNat?
    let wd ← wd.toNat?
    let cap ← cap.toNat?
    let k ← (parseBn w k).map (Relic.Model.Bn.toInt (2 ^ w))
    let kn := k.natAbs
    if kind == "mod" then
      let r := Relic.Model.Tnaf.tnafMod kn u m
      let mdl := fmtIntNF w r.1 ++ " " ++ fmtIntNF w r.2
      -- spec: what the implementation printed denotes an element congruent to |k|
      let ok := match got.splitOn " " with
        | [a, b] => match parseHexInt ((a.splitOn ":").headD ""), parseHexInt ((b.splitOn ":").headD "") with
          | some r0, some r1 => Relic.Model.Tnaf.congTauM u m (r0, r1) ((kn : Int), 0)
          | _, _ => false
        | _ => false
      some { model := mdl, spec := if ok then [got] else ["<r0 r1 with r0 + r1 tau = |k| mod tau^m - 1>"] }
    else if kind == "tnaf" then
      match Relic.Model.Tnaf.recTnaf cap kn u m wd with
      | none => cls "err"
      | some ds =>
        let body := "len=" ++ toString ds.length ++ (if ds.isEmpty then "" else " " ++ String.intercalate "," (ds.map toString))
        let mdl := body ++ (if ds.length > cap then " WROTE-PAST-CAP" else "")
        -- spec column: judge the digits the implementation printed
        let toks := got.splitOn " "
        let gd : Option (List Int) := match toks with
          | [_] => some []
          | [_, d] => (d.splitOn ",").mapM String.toInt?
          | _ => none
        let ok := match gd with
          | some g =>
            toks.headD "" == "len=" ++ toString g.length && g.length ≤ cap &&
            g.all (fun d => d == 0 || (d % 2 != 0 && d.natAbs < 2 ^ (wd - 1))) &&
            Relic.Model.Tnaf.congTauM u m (Relic.Model.Tnaf.evalDigits u wd g) ((kn : Int), 0)
          | none => false
        some { model := mdl, spec := if ok then [got] else ["<at most cap digits, zero or odd < 2^(w-1), denoting |k| mod tau^m - 1>"],
               tags := ["tnaf.w" ++ toString wd] }
    else none
  | _, _ => none

def handle (fe : Option FEnv) (ee : Option EEnv) (cache : Cache) (w : Nat) (op : String) (args : List String) (got : String) : Option Verdict :=
  (handleTnaf w op args got) <|>
  (match fe with
    | some e => handleField e w op args got
    | none => none) <|>
  (match ee with
    | some e => handleCurve e cache w op args got
    | none => none)

end Driver.C16
