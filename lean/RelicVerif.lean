-- Root of the `RelicVerif` library: every property file.
import RelicVerif.Props.C01
import RelicVerif.Props.C15
import RelicVerif.Props.C19
