-- This module serves as the root of the `RelicVerif` library.
-- Import modules here that should be built as part of the library.
import RelicVerif.Basic
