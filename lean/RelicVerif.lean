-- Root of the `RelicVerif` library: every property file.
import RelicVerif.Props.C01
import RelicVerif.Props.C15
import RelicVerif.Props.C19
import RelicVerif.Props.C02
import RelicVerif.Props.C07
import RelicVerif.Props.C14
import RelicVerif.Props.C09
import RelicVerif.Props.C03
import RelicVerif.Props.C18
import RelicVerif.Props.C05
