import sys, random, subprocess, json
sys.path.insert(0,'/var/tmp/agents/c10/verif/tools')
from props import c10
exe='/var/tmp/agents/c10/scratch/oracle_base'
ctxline=sys.argv[1] if len(sys.argv)>1 else 'fpx_param e 23 1'
kv=c10._param(exe,ctxline)
T=c10.towers(kv); p=int(kv['p'],16)
T2=T[2]; T12=T[12]
xi=[int(x,16) for x in kv['xi'].split(',')]
q=p*p
random.seed(int(sys.argv[2]) if len(sys.argv)>2 else 1)
# polynomials over Fp2: list of Fp2 elements, low degree first
Z=[0,0]; ONE=[1,0]
def padd(a,b):
    n=max(len(a),len(b)); return [T2.add(a[i] if i<len(a) else Z, b[i] if i<len(b) else Z) for i in range(n)]
def psub(a,b):
    n=max(len(a),len(b)); return trim([T2.sub(a[i] if i<len(a) else Z, b[i] if i<len(b) else Z) for i in range(n)])
def trim(a):
    while a and a[-1]==Z: a=a[:-1]
    return a
def pmul(a,b):
    if not a or not b: return []
    r=[Z]*(len(a)+len(b)-1)
    for i,x in enumerate(a):
        if x==Z: continue
        for j,y in enumerate(b):
            r[i+j]=T2.add(r[i+j],T2.mul(x,y))
    return trim(r)
def pmod(a,m):
    a=trim(list(a)); m=trim(list(m)); inv=T2.inv(m[-1])
    while len(a)>=len(m):
        c=T2.mul(a[-1],inv); s=len(a)-len(m)
        for i,y in enumerate(m): a[s+i]=T2.sub(a[s+i],T2.mul(c,y))
        a=trim(a)
    return a
def pgcd(a,b):
    a=trim(list(a)); b=trim(list(b))
    while b: a,b=b,pmod(a,b)
    if a:
        inv=T2.inv(a[-1]); a=[T2.mul(x,inv) for x in a]
    return a
def ppowmod(a,e,m):
    r=[ONE]
    for bit in bin(e)[2:]:
        r=pmod(pmul(r,r),m)
        if bit=='1': r=pmod(pmul(r,a),m)
    return r
def roots(P):
    X=[Z,ONE]
    g=pgcd(psub(ppowmod(X,q,P),X),P)
    out=[]
    def split(g):
        if len(g)<=1: return
        if len(g)==2:
            out.append(T2.neg(T2.mul(g[0],T2.inv(g[1])))); return
        while True:
            r=[[random.randrange(p),random.randrange(p)],ONE]
            h=psub(ppowmod(r,(q-1)//2,g),[ONE])
            d=pgcd(h,g)
            if 1<len(d)<len(g):
                split(d); split(pmod_div(g,d)); return
    def pmod_div(a,b):
        # exact division
        a=list(a); res=[Z]*(len(a)-len(b)+1); inv=T2.inv(b[-1])
        while len(a)>=len(b) and trim(list(a)):
            a=trim(a)
            if len(a)<len(b): break
            c=T2.mul(a[-1],inv); s=len(a)-len(b); res[s]=c
            for i,y in enumerate(b): a[s+i]=T2.sub(a[s+i],T2.mul(c,y))
        return trim(res)
    split(g); return out
def c(v): return [v%p,0]
found=[]
while len(found)<3:
    g5=[random.randrange(p),random.randrange(p)]
    # P(x) = xi*(3x^2 + xi g5^2)^3 - 8x(x^2+3 xi g5^2)
    k=T2.mul(xi,T2.mul(g5,g5))
    A=[k,Z,c(3)]
    A3=pmul(A,pmul(A,A))
    lhs=[T2.mul(xi,z) for z in A3]
    B=pmul([Z,c(8)],[T2.mul(c(3),k),Z,ONE])
    P=psub(lhs,B)
    for g4 in roots(P):
        g3=T2.mul(T2.add(T2.mul(c(3),T2.mul(g4,g4)),k),T2.inv(c(2)))
        if g3==Z: continue
        g3i=T2.inv(g3)
        g1=T2.mul(T2.mul(c(2),T2.mul(g4,g5)),g3i)
        g0=T2.sub(T2.mul(T2.add(T2.mul(g4,g4),k),g3i),ONE)
        a=g0+g4+g3+Z+g1+g5     # units: 0:g0 1:g4 2:g3 3:g2 4:g1 5:g5
        ok=T12.mul(T12.frob(a,4),a)==T12.frob(a,2)
        print('candidate cyc?',ok)
        if ok: found.append(a)
json.dump(found,open('g2zero_%s.json'%ctxline.replace(' ','_'),'w'))
for a in found: print(c10.fmt(a))
